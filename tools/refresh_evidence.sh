#!/bin/bash
# Re-runs every quick check in /verif against /repo so that the committed
# evidence files describe quick-tier runs of the current commit.
cd /verif || exit 2
fail=0
for p in C01 C02 C03 C04 C05 C06 C07 C08 C09 C10 C11 C12 C13 C14 C15 C16 C17 C18 C19 C20; do
  out=$(./check $p quick 2>&1); code=$?
  echo "$out" | grep -E "^(VIOLATION|MACHINERY|C[0-9][0-9] tier)" | cut -c1-150
  [ $code -ne 0 ] && fail=1
done
python3-vt - <<'PY'
import json,jsonschema,glob
s=json.load(open('/root/.vp/EVIDENCE.schema.json'))
for f in sorted(glob.glob('/verif/evidence/C*.json')):
    d=json.load(open(f)); jsonschema.validate(d,s)
    assert d['tier']=='quick', f
print("all evidence files valid, tier=quick")
PY
exit $fail
