#!/usr/bin/env python3
"""Regenerates /verif/MANIFEST.json from the table below (keeps it valid and
the not_applicable list current). Run from /verif: python3 tools/gen_manifest.py"""
import json, os, subprocess

HERE = os.path.dirname(os.path.dirname(os.path.abspath(__file__)))
E1 = "explicit-state model checking of the implementation (BFS over event sequences, exact state dedup, every RNG draw a branch)"
E2X = "explicit-state model checking of a closed cluster of real instances (virtual clock, in-memory network), exhaustive with deduplication and deviation-bounded exploration"
E2F = "fault enumeration on a closed cluster of real instances: every fault point x deviation-bounded schedule exploration"
E3 = "bounded-exhaustive enumeration of inputs against a reference model"

# property -> (engine, level category, level text, level note, technique, design ref)
CHECKS = {
    "C08": ("E1", "model_checking",
            "All histories of datagrams (4 kinds x sender identities/incarnations x update payloads incl. own-address generations and self Down/Suspect/MAX), timers, apply_many, leave, change_identity, reuse up to the depth bound, from scratch and from 7 formed states, under every RNG answer; after every call the notification stream is replayed against iter_members()/num_members(), the Active/Idle/Defunct/Rejoin machine is checked incl. the Defunct/Rejoin iff-clause, and an AccumulatingRuntime twin must yield the same three FIFO streams.",
            "bounded depth (quick 3+3, thorough 5+4); the iff-clause predicts admission/sender activity with a small reference model (refmodel.rs) calibrated on the tree; random deep runs are not done (other family)", E1, "DESIGN.md 3 C08"),
    "C09": ("E1", "model_checking",
            "Same engine; alphabet adds senders that are older/newer generations of known peers and of the own address, stale destinations and custom items. After every call: one record per address, own address never active, records <= addresses mentioned, identity replaced only by a winner with Rename notified, no fallback to a superseded generation until forgotten, payload of superseded/Down senders discarded (membership, handler, backlog untouched; only the permitted TurnUndead reply).",
            "bounded depth; generations 0..2 per address; total order win_addr_conflict = greater generation", E1, "DESIGN.md 3 C09"),
    "C10": ("E1", "model_checking",
            "Alphabet of suspicions/Alive/Down about the own identity at incarnations own-1, own, own+1, 65534, 65535 (by datagram, apply_many and TurnUndead), own older/newer generations, four renew policies (None, Next, Same, Losing). Own (identity, incarnation) is read after every call from the header of an announce() on a discarded clone; monotonicity, growth-only-with-cause, strict refutation, told-bound on gossiped incarnations, Rejoin-wins-and-gossips-Down(old) or Defunct-and-silent are checked on every transition.",
            "bounded depth; 'told' is maximal over all inputs (lenient side)", E1, "DESIGN.md 3 C10"),
    "C11": ("E1", "model_checking",
            "Suspicions are raised by real failed probe rounds so the timeout timer is the one Foca scheduled; all interleavings with refutation by header/update at same/higher incarnation, Down gossip, rename to a newer generation, Idle/Active cycles, change_identity, forget-timer and re-registration, duplicate and stale deliveries; notify_down_members off/on. At every firing the complete case table (effective / cancelled / stale / already Down) is checked: effective => Down + MemberDown + Down in next gossip + one RemoveDown + TurnUndead iff configured; cancelled or stale => empty effect log and unchanged state. Down-is-final checked on every transition.",
            "bounded depth (quick 4+4, thorough 7+6); run fails as vacuous if a case-table row was never exercised", E1, "DESIGN.md 3 C11"),
    "C13": ("E1", "model_checking",
            "The harness is the timer wheel: outstanding timers are exactly those scheduled and not yet delivered; delivery in arbitrary order (and, in a second exploration, strictly in deadline order with arbitrary lateness); interleaved with Active/Idle flips, Down(self), TurnUndead, change_identity, reuse, leave, set_config disabling/retiming periodic tasks; every subset of the three periodic tasks. State invariant (behavioural: a timer is effective iff delivering it to a clone has any effect): active => exactly one effective probe timer and one per enabled periodic task; not active => none. Stale timers have empty effect logs; deadline order => handle_timer never errs; any order => only IncompleteProbeCycle.",
            "bounded depth (quick 5+5, thorough 8+7); <256 epoch changes by construction", E1, "DESIGN.md 3 C13"),
    "C19": ("E1", "model_checking",
            "All event sequences (datagrams naming older/newer generations of the own address, renewals, all timers incl. every periodic task, API calls) up to a depth bound, under every RNG answer, executed on the real code; every emitted datagram's destination is compared with the instance's own address (relays excepted).",
            "bounded: 3 addresses, generations 0..3 of the own address, depth 4+3 (quick) / 6+5 (thorough)", E1, "DESIGN.md 3 C19"),
}


CHECKS.update({
    "C06": ("E1", "model_checking",
            "Hostile single-instance exploration: every datagram kind with adversarial fields (own identity/address as source, destination or relay target, unknown members, incarnation 0/65535, probe numbers 0/255, counts larger than present), fabricated timers of every variant with arbitrary tokens/identities, every public method with adversarial arguments (change_identity to a peer's identity, announce to itself), set_config with every legal variation (packet size 1/20/3000/70000, max_transmissions 1/255, fan-out 64, periodic tasks off), add_broadcast of 0..66000 bytes; all sequences to the depth bound under every RNG answer, catch_unwind around every call. Then every truncation / byte substitution / extension of every distinct datagram emitted there and all byte strings of length <=2 (<=3 thorough) against three receiver states, for FixCodec (fixed/variable identities), postcard and bincode; Config::new_lan/new_wan for every NonZeroU32 (thorough) or 2^20 values plus boundaries (quick). Run in a debug-assertion + overflow-check build and again in a plain release build; the two must agree level by level.",
            "depth 3 (quick) / 4 (thorough) from scratch and from 3 formed states; allocation aborts are reproduced only in a child process (known finding F11); doubles trusted not to panic", E1, "DESIGN.md 3 C06"),
    "C07": ("E3", "model_checking",
            "Size sweep: each of the 11 message kinds produced through its real path (probe timer, incoming Ping/PingReq/IndirectPing/IndirectAck/Announce, gossip, announce, broadcast, inactive sender, suspicion timeout), memberships 0..6 with 0..2 Down, backlogs 0..6, 0..4 custom items, for EVERY max_packet_size from below-a-header to everything-fits+3 plus 1400 and 65536, five wire formats (FixCodec fixed/variable identities, postcard and bincode with String identities, postcard with integer identities). Every datagram is parsed by an independent grammar parser (header; count + exactly count members; length-prefixed non-empty items; nothing else; src/dst; Feed contents) and handed to a fresh real peer with the same codec and packet size, which must not answer Decode/MalformedPacket/DataTooBig and whose handler must see exactly the framed items. Plus the same grammar oracle on every datagram of an E1 exploration with small packet sizes.",
            "identities of 4 shapes; the serde-format parser calls postcard/bincode directly; header-only piggybacking datagrams (no room for a count) count as well-formed", E3, "DESIGN.md 3 C07"),
    "C12": ("E1", "model_checking",
            "1..3 peers x fan-out 1..3; probe rounds driven by the timers Foca scheduled, delivered in deadline order; between them every interleaving of Ack / ForwardedAck from {target, asked helper, unasked member, unknown identity} x probe number {previous, current, next}, target going Down / refuting / being renamed, the last member leaving, change_identity, Ping and all four relay messages incl. the ones naming the instance itself. The harness computes 'evidence' literally from the statement and compares at the next round start: no suspicion iff evidence (or aborted / target changed), else Suspect + exactly one timeout; PingReq only when allowed, <= fan-out, distinct, active, never the target nor self; Ping => Ack(same number); relay hops preserve origin/target/number; relays for ourselves rejected.",
            "bounded depth (quick 4+4, thorough 7+7); run fails as vacuous if an outcome class is never exercised", E1, "DESIGN.md 3 C12"),
    "C15": ("E1", "model_checking",
            "Reference backlog kept by the harness from OBSERVED acceptance (record at the address changed in a broadcasting call; plus leave/identity-change enqueues). For every piggybacking datagram: each carried update is byte-equal to a live entry (then decremented, dropped at zero), every omitted live entry is strictly larger than the space left, precedence by transmissions remaining; Feed/Announce/TurnUndead/Broadcast consume nothing; updates_backlog() equals the live entries after every call; hook cross-check of remaining transmissions. max_transmissions 1..3, packet sizes one-update-fits / two-fit / all-fit, fixed and variable update sizes; plus a scripted 255-transmission drain.",
            "bounded depth (quick 4+4, thorough 6+6); alphabet keeps acceptances before sends within a call", E1, "DESIGN.md 3 C15"),
    "C16": ("E1", "model_checking",
            "Table-driven handler (versioned keys; invalidation relations newer-version / equal-key / never / always; recipient masks). Reference backlog of accepted items; every framed item of every outgoing datagram is byte-identical to a live accepted item, never on Announce/TurnUndead, never to a masked recipient, at most max_transmissions times, never after invalidation, nothing that fits is omitted; each datagram is delivered to a second real instance whose recording handler must see exactly the items, in order, once each, with the sender's identity. broadcast(): only Broadcast kind, no member section, <= fan-out distinct eligible active recipients, stops when drained, silent when empty.",
            "bounded depth (quick 4+4, thorough 6+6); item sizes 3, 9, fits-exactly, fits-minus-one", E1, "DESIGN.md 3 C16"),
    "C17": ("E1", "model_checking",
            "Base exploration enumerates reachable states; in EVERY reachable state EVERY rejected input of 17 classes (oversized buffer, header truncated at every byte, bad kind byte, member list truncated at every byte, bad state byte, count > members, own identity / own address as source, one trailing byte, Announce with payload, wrong destination, stale-token timers of every variant, reuse when not defunct, change_identity to the current identity, the five forbidden set_config changes, empty / oversized add_broadcast) must return its documented result with an empty effect log and no RNG draw, and every continuation over the base alphabet (every RNG answer) must produce identical effects and results with and without it. Each state is also rebuilt from its history to check determinism.",
            "base depth 3+2 (quick) / 4+3 with continuation depth 2 and rejected pairs (thorough)", E1, "DESIGN.md 3 C17"),
})

CHECKS.update({
    "C01": ("E3", "model_checking",
            "ALL update sequences (which subsumes every permutation and duplication of every multiset) over identities {three generations of one address, another address} x incarnations {0,1,2} and {0,1,65534,65535} x {Alive,Suspect,Down} up to length 4 (5-6 on sub-alphabets / thorough), applied through apply_many one by one and as one batch, with and without broadcasting; after EVERY prefix the public view must equal an order-independent reference join of the set of updates delivered (so every step is monotone and the result is order/multiplicity insensitive), and re-applying the instance's own full state must change nothing. State exchange: all ordered pairs of states reachable in <=3 updates (incl. records about the partner and the own address) x two exchange protocols must agree on every third-party address.",
            "bounded length and alphabet; win_addr_conflict is a strict total order per address; incarnation next to Down ignored", E3, "DESIGN.md 3 C01"),
    "C14": ("E3", "model_checking",
            "Start states: all histories of <=5 (thorough 7) operations (join, member down, forget, probe round) under every RNG answer (insertion positions, shuffles). Stable phase: breadth-first search to FIXPOINT over the finite product (record order, cursor, rounds-since-pinged per member), each transition one real probe round (probe timer, matching Ack, indirect timer), branching on every shuffle outcome: all infinite stable runs are covered. Each round pings exactly one active member, never a Down one or itself; no member goes 2n-1 rounds without a Ping (observed maximum is exactly 2n-2).",
            "n <= 4 active, <= 1 Down record (quick) / n <= 5, <= 2 Down (thorough); product state omits probe number and backlog (assumed irrelevant to member choice)", E3, "DESIGN.md 3 C14"),
    "C20": ("E3", "model_checking",
            "Header/Member values over every Message variant x identities (integers at 2^7, 2^14, 2^32, 2^64 boundaries; strings of length 0, 1, 127, 128) x incarnations and probe numbers at the varint boundaries of both formats (about 75 000 values): round trip consuming exactly the encoded length with three different tails; encoding into EVERY insufficient buffer size returns an error and never writes past the limit; decoding EVERY truncation, byte substitutions at every position, and all byte strings of length <=2 (<=3 thorough) returns a value or an error without panicking or over-reading; postcard and bincode, integer and String identities. (Mid-feed encode failures keeping datagrams well-formed: C07's size sweep.)",
            "inputs on which a length-limited bincode decoder reports LimitExceeded are decoded only in a child process (known finding F11)", E3, "DESIGN.md 3 C20"),
})

CHECKS.update({
    "C02": ("E2", "model_checking",
            "Closed cluster of 2..4 (thorough 5) real instances under a virtual clock, every timer exactly on time. Grid: join pattern (sequential / concurrent x same seed / distinct seeds) x max_transmissions {1,3,10} x fan-out {1,3} x periodic gossip+announce on/off x packet size {just feeds the cluster, 1400, and - safety clause only - too small to feed it}. Per cell the default schedule plus EVERY schedule departing from it in at most D choice points (latency of each datagram 1 or 9 ticks, order of simultaneous events at a node, every RNG draw). Safety on every event: no live member recorded Suspect/Down, no MemberDown/Idle/Defunct, every call Ok. Discovery: every instance lists exactly every other within (2n+2) probe periods of the last join.",
            "D=2 for n<=3, D=1 for n=4 (quick); a joiner announces once; known finding F8 (concurrent joiners through distinct seeds, periodic announce off) is reported as KNOWN-FINDING", E2X, "DESIGN.md 3 C02"),
    "C03": ("E2", "fault_enumeration",
            "Formed cluster (bootstrapped by real announces, staggered phases) of 2..4 (thorough 5) members; EVERY non-empty proper subset failing, by crash or by leave_cluster while the process keeps running, renewable and non-renewable identities, at EVERY event index of one full probe rotation; on top of each fault cell every schedule with <= D deviations. Oracle: every survivor that listed a failed member notifies MemberDown within (2n+1) probe periods + suspect_to_down_after; no survivor is ever declared Down or told so; members told of a leave report Down at once; a leaver sends no Ack/IndirectAck/Feed/... afterwards and never rejoins.",
            "D=1 (quick), D=2 for n<=3 / D=1 for n=4,5 (thorough); timing configuration fixed (100/40/300 ticks)", E2F, "DESIGN.md 3 C03"),
    "C04": ("E2", "fault_enumeration",
            "Formed cluster of 2..4 (thorough 5) members; notify_down_members x renewable x fan-out x max_transmissions; three traffic flavours (plain; one slow-but-delivered Ack so that an indirect probe cycle exists; a join inside the window with periodic gossip) so that Ping, Ack, PingReq, IndirectPing, IndirectAck, ForwardedAck, Gossip and Feed can each be the lost datagram (run fails as vacuous otherwise); EVERY datagram index of a window of 2n+2 probe periods is dropped in turn; on top every schedule with <= D deviations. Oracle: no MemberDown, Defunct or Rejoin anywhere; at the horizon every formed member lists every other as Alive.",
            "D=1 for n<=3, D=0 for n=4 (quick); D=2/1 (thorough)", E2F, "DESIGN.md 3 C04"),
})

CHECKS.update({
    "C05": ("E2", "fault_enumeration",
            "Formed cluster of 3..4 (thorough 6) members with renewable identities, notify_down_members and periodic_announce_to_down_members; every split shape (up to symmetry, at least one side >= 2), formation phase offsets {0 = all boot in the same tick, 1, 17}, partition start at event indices of the window, partition held until both sides declared each other Down and then healed at a sweep of instants across one announce-to-down period; plus the asymmetric case (a single live member falsely declared Down); on selected cells every schedule with <= 1 deviation after the heal. Oracle: within 8 announce-to-down periods every live instance lists every other under its current identity; every instance told it is down reports Rejoin (never Defunct) with a winning identity and Active afterwards.",
            "known finding F6 (aligned timers: everybody renews at once, permanent silence) is reported as KNOWN-FINDING by its symptom; timing configuration fixed", E2F, "DESIGN.md 3 C05"),
    "C18": ("E2", "model_checking",
            "Pairs of real instances in every combination of mutual knowledge (unknown / Alive / Suspect / Down / older generation / newer generation of the other; with or without an absent third party so that the instance is active on its own; active or defunct), renewable or not, notify_down_members on/off, fan-out 1/3 (9216 worlds) and triples over a reduced domain; states are built by real calls (apply_many, leave_cluster). Every initial datagram kind from every instance to every other, also addressed to a superseded identity and carrying the sender's belief about the receiver; then ALL delivery orders of the in-flight multiset (DFS with deduplication on the global state), timers never fired. Oracle: the network drains, no global state repeats along a path (modulo timer token / probe number), each delivery causes <= 2F+2 datagrams, <= 64 datagrams in total.",
            "exhaustive over the stated worlds and delivery orders; the 64-datagram cap is part of the oracle", E2X, "DESIGN.md 3 C18"),
})

PENDING = {}  # property -> reason; filled below for everything not in CHECKS

def main():
    props = [json.loads(l) for l in open(os.path.join(HERE, "properties.jsonl"))]
    ids = [p["id"] for p in props]
    checks = []
    for pid in ids:
        if pid not in CHECKS:
            continue
        eng, cat, text, note, tech, ref = CHECKS[pid]
        checks.append({
            "property_id": pid,
            "quick_cmd": f"./check {pid} quick",
            "thorough_cmd": f"./check {pid} thorough",
            "evidence_file": f"/verif/evidence/{pid}.json",
            "replay_cmd_template": "./target/release/verif replay {path}",
            "engine": eng,
            "level_claimed": {"category": cat, "text": text, "design_ref": ref},
            "level_note": note,
            "technique": tech,
        })
    na = []
    for pid in ids:
        if pid not in CHECKS:
            na.append({"property_id": pid, "reason": PENDING.get(pid, "not claimed yet: its model-checking check (planned in DESIGN.md section 3) has not been built at this commit")})
    hooks_commit = "b2c3a9e"
    engines = [
        {"name": "E1", "path": "harness/src/e1.rs", "serves_properties": [p for p in ids if p in CHECKS and CHECKS[p][0] == "E1"],
         "kind_free_text": "explicit-state breadth-first exploration of one real Foca instance against an adversarial environment; every RNG draw a branch; exact state deduplication"},
        {"name": "E2", "path": "harness/src/e2.rs", "serves_properties": [p for p in ids if p in CHECKS and CHECKS[p][0] == "E2"],
         "kind_free_text": "closed cluster of real instances under a virtual clock; exhaustive-with-dedup and deviation-bounded exploration; fault enumeration"},
        {"name": "E3", "path": "harness/src/e3.rs", "serves_properties": [p for p in ids if p in CHECKS and CHECKS[p][0] == "E3"],
         "kind_free_text": "bounded-exhaustive input enumeration against reference models"},
    ]
    engines = [e for e in engines if e["serves_properties"]]
    man = {
        "version": 1,
        "setup_cmd": "cd /verif/harness && CARGO_NET_OFFLINE=true cargo build --release --offline && CARGO_NET_OFFLINE=true cargo build --profile plain --offline",
        "hooks": {
            "guard": "cargo feature verif-hooks (foca/Cargo.toml [features])",
            "enable": "the harness depends on foca by path (/repo) with features [std, bincode-codec, postcard-codec, verif-hooks]; every check command rebuilds it from /repo's working tree",
            "baseline_off_cmd": "cd /repo && cargo test --workspace --no-fail-fast --offline",
            "source_commits": [hooks_commit],
            "add_only": True,
        },
        "engines": engines,
        "checks": checks,
        "not_applicable": na,
        "notes": "See DESIGN.md. Known findings: known_findings.json. Seeded property-breaking changes: seeded/.",
    }
    json.dump(man, open(os.path.join(HERE, "MANIFEST.json"), "w"), indent=1)
    print(f"{len(checks)} checks, {len(na)} not claimed")

if __name__ == "__main__":
    main()
