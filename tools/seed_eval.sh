#!/bin/bash
# usage: tools/seed_eval.sh <id> <worktree> <tier> <Cxx>...
# Confirms a seeded property-breaking change independently (compiles, the 79
# unit tests pass, the demonstration fails with it and passes without it),
# stores it under /verif/seeded/<id>/, then runs the named checks against it
# on /repo's working tree and restores /repo.
set -u
id=$1; wt=$2; tier=$3; shift 3
dst=/verif/seeded/$id
mkdir -p "$dst"
cd "$wt" || exit 2
git diff -- src > /tmp/seed_eval_$id.diff
if ! diff -q /tmp/seed_eval_$id.diff patch.diff >/dev/null; then echo "NOTE: worktree diff differs from patch.diff; using patch.diff"; git checkout -q -- src; git apply patch.diff || { echo "patch.diff does not apply"; exit 2; }; fi
feat=std
grep -q postcard tests/seeded_demo.rs 2>/dev/null && feat=std,postcard-codec
grep -q bincode tests/seeded_demo.rs 2>/dev/null && feat=$feat,bincode-codec
unit=$(cargo test --offline --lib 2>&1 | grep -E "^test result" | head -1)
with=$(cargo test --offline --features $feat --test seeded_demo 2>&1 | grep -E "^test result" | head -1)
git apply -R patch.diff
without=$(cargo test --offline --features $feat --test seeded_demo 2>&1 | grep -E "^test result" | head -1)
git apply patch.diff
echo "unit tests with change : $unit"
echo "demo with change       : $with"
echo "demo without change    : $without"
cp patch.diff "$dst/patch.diff"; cp tests/seeded_demo.rs "$dst/seeded_demo.rs"; [ -f NOTES.md ] && cp NOTES.md "$dst/NOTES.md"
# now our checks
results=""
if [ -z "${CONFIRM_ONLY:-}" ]; then
cd /repo || exit 2
if ! git diff --quiet; then echo "refusing: /repo dirty"; exit 2; fi
trap 'git -C /repo checkout -q -- .' EXIT
git apply "$dst/patch.diff" || { echo "patch does not apply to /repo"; exit 2; }
fi
cd /verif
[ -n "${CONFIRM_ONLY:-}" ] && set --
for p in "$@"; do
  out=$(./check "$p" "$tier" 2>&1); code=$?
  sig=$(echo "$out" | grep -E "^  \[" | head -1 | sed -E 's/^  \[([^]]*)\].*/\1/')
  echo "== $p $tier exit=$code ${sig}"
  echo "$out" | grep -E "^  \[" | head -2 | cut -c1-500
  results="$results{\"check\":\"$p\",\"tier\":\"$tier\",\"exit\":$code,\"signature\":\"$sig\"},"
done
python3 - "$id" "$unit" "$with" "$without" "[${results%,}]" <<'EOF'
import json,sys,os
id_,unit,with_,without,res=sys.argv[1:6]
p=f"/verif/seeded/{id_}/meta.json"
meta=json.load(open(p)) if os.path.exists(p) else {}
meta.update({"id":id_,"confirmed":{"unit_tests_with_change":unit,"demo_with_change":with_,"demo_without_change":without}})
runs=meta.get("check_runs",[])
runs+=json.loads(res)
meta["check_runs"]=runs
json.dump(meta,open(p,"w"),indent=1)
EOF
