#!/bin/bash
# usage: tools/try_change.sh <patch.diff | revert:<commit>> <tier> <Cxx>...
# Applies a change to /repo's working tree, runs the named checks, prints their
# VIOLATION / KNOWN-FINDING / summary lines, and always restores /repo.
set -u
change=$1; tier=$2; shift 2
cd /repo || exit 2
if ! git diff --quiet; then echo "refusing: /repo has uncommitted changes"; exit 2; fi
restore() { git -C /repo checkout -q -- . ; }
trap restore EXIT
case "$change" in
  revert:*) git show "${change#revert:}" | git apply -R || { echo "cannot revert ${change#revert:}"; exit 2; } ;;
  *) git apply "$change" || { echo "patch does not apply"; exit 2; } ;;
esac
if [ "${RUN_TESTS:-0}" = 1 ]; then
  cargo test --workspace --no-fail-fast --offline 2>&1 | grep -E "^test result: " | head -1
fi
cd /verif
for p in "$@"; do
  out=$(./check "$p" "$tier" 2>&1)
  code=$?
  echo "== $p exit=$code"
  echo "$out" | grep -E "^(VIOLATION|KNOWN-FINDING|MACHINERY)" | cut -c1-200
  echo "$out" | grep -E "^  \[" | head -3 | cut -c1-400
done
