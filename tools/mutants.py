#!/usr/bin/env python3
"""Self-made property-breaking changes ("mutants"): each is a single textual
replacement in /repo/src. For each: apply to /repo's working tree, run the
repository's own test-suite (does it notice?), run the named quick checks
(do they notice?), save the diff under /verif/mutants/, restore /repo.

usage: python3 tools/mutants.py [name ...]      (default: all)
"""
import json, os, subprocess, sys

REPO = "/repo"
VERIF = "/verif"

# name, file, old, new, checks expected to catch it, note
MUTANTS = [
    ("m01_feed_lists_receiver", "src/lib.rs",
     "                    |member| member != &dst,\n", "                    |_member| true,\n",
     ["C07"], "Feed no longer filters out its receiver"),
    ("m02_no_token_bump_on_idle", "src/lib.rs",
     "        self.timer_token = self.timer_token.wrapping_add(1);\n        self.probe.clear();\n\n        runtime.notify(Notification::Idle);",
     "        self.probe.clear();\n\n        runtime.notify(Notification::Idle);",
     ["C13"], "going idle no longer invalidates outstanding timers"),
    ("m03_round_robin_wrap", "src/member.rs",
     "            if pos < self.cursor {\n", "            if pos + 1 < self.cursor {\n",
     ["C14"], "wrap-around detection off by one (argued equivalent in DESIGN 6)"),
    ("m04_fill_never_decrements", "src/broadcast.rs",
     "                buffer.put_slice(&node.data);\n                node.remaining_tx -= 1;\n            }\n\n            if node.remaining_tx > 0 {\n                self.flop.push(node);\n            }\n        }\n\n        self.flip.append(&mut self.flop);\n\n        num_taken\n    }\n\n    pub(crate) fn fill_with_len_prefix(",
     "                buffer.put_slice(&node.data);\n                node.remaining_tx = node.remaining_tx.saturating_sub(usize::from(node.remaining_tx > 1));\n            }\n\n            if node.remaining_tx > 0 {\n                self.flop.push(node);\n            }\n        }\n\n        self.flip.append(&mut self.flop);\n\n        num_taken\n    }\n\n    pub(crate) fn fill_with_len_prefix(",
     ["C15"], "the last transmission of an update never expires"),
    ("m05_updates_buf_not_cleared", "src/lib.rs",
     "        self.updates_buf.clear();\n        if remaining >= 2 && header.message != Message::Broadcast {",
     "        if remaining >= 2 && header.message != Message::Broadcast {",
     ["C17"], "stale half-decoded member list of a rejected datagram is applied by the next one"),
    ("m06_forwarded_ack_from_anybody", "src/probe.rs",
     "        if let Some(position) = self.indirect.iter().position(|id| id == from) {\n            self.indirect_ack_count += 1;",
     "        let _ = from;\n        if let Some(position) = self.indirect.iter().position(|_id| true) {\n            self.indirect_ack_count += 1;",
     ["C12"], "ForwardedAck counts whoever sent it"),
    ("m07_same_address_source_accepted", "src/lib.rs",
     "        if header.src == self.identity || header.src.addr() == self.identity.addr() {",
     "        if header.src == self.identity {",
     ["C09", "C17", "C19"], "datagrams from another generation of the own address are processed"),
    ("m08_bump_on_stale_suspicion", "src/lib.rs",
     "                            \"Received suspicion about old incarnation\",\n                        );\n                        false",
     "                            \"Received suspicion about old incarnation\",\n                        );\n                        true",
     ["C10"], "incarnation grows on a suspicion older than the current incarnation"),
    ("m08b_bump_on_stale_suspicion", "src/lib.rs",
     "                    Ordering::Greater => {\n", "                    Ordering::Greater if incarnation == 0 => {\n                        false\n                    }\n                    Ordering::Greater => {\n",
     ["C10"], "placeholder (not used)"),
    ("m09_ack_ignores_probe_number", "src/probe.rs",
     "        if probeno == self.probe_number\n            && self", "        if self",
     ["C12"], "a late Ack of a previous round counts as evidence"),
    ("m10_forget_timer_removes_any_state", "src/member.rs",
     ".position(|member| &member.id == id && member.state == State::Down);", ".position(|member| &member.id == id);",
     ["C11", "C09"], "RemoveDown removes the record even if the member is active again"),
    ("m11_conflict_direction", "src/member.rs",
     "            if id_conflict && known_member.id.win_addr_conflict(&update.id) {",
     "            if id_conflict && !update.id.win_addr_conflict(&known_member.id) && known_member.is_active() {",
     ["C09", "C01"], "a losing identity replaces a Down record of the winner"),
    ("m12_trailing_byte_accepted", "src/lib.rs",
     "        if remaining == 1 || (header.message == Message::Announce && remaining > 0) {",
     "        if header.message == Message::Announce && remaining > 0 {",
     ["C17"], "a datagram with one trailing byte is processed"),
    ("m13_timeout_skips_connection_adjust", "src/lib.rs",
     "                        // Member went down we might need to adjust our internal state\n                        self.adjust_connection_state(&mut runtime);\n",
     "",
     ["C08", "C13"], "last member timing out leaves the instance active with no members"),
    ("m14_identity_change_keeps_incarnation", "src/lib.rs",
     "        self.connection_state = ConnectionState::Disconnected;\n        self.incarnation = Incarnation::default();\n",
     "        self.connection_state = ConnectionState::Disconnected;\n",
     ["C10"], "a new identity does not start at incarnation 0"),
    ("m15_gossip_on_announce_kind", "src/payload.rs",
     "        !matches!(self, Self::Announce | Self::TurnUndead)\n", "        !matches!(self, Self::TurnUndead)\n",
     ["C07", "C16"], "Announce may carry custom broadcasts (the receiver rejects it)"),
    ("m16_wrong_dst_accepted_same_address", "src/lib.rs",
     "            || (header.message == Message::Announce\n", "            || ((header.message == Message::Announce || header.message == Message::Gossip)\n",
     ["C17"], "Gossip addressed to another generation of the own address is processed"),
    ("m17_down_not_final", "src/member.rs",
     "            State::Down => false,\n        }\n    }\n\n    pub(crate) fn into_identity",
     "            State::Down => matches!(other, State::Alive) && other_incarnation > self.incarnation.saturating_add(1),\n        }\n    }\n\n    pub(crate) fn into_identity",
     ["C01", "C11"], "a much newer Alive resurrects a Down member"),
    ("m18_broadcast_to_masked", "src/lib.rs",
     "            // Unless the broadcast handler says no\n            && self.broadcast_handler.should_add_broadcast_data(&dst);",
     "            // Unless the broadcast handler says no\n            && (self.broadcast_handler.should_add_broadcast_data(&dst) || !header.message.needs_piggyback());",
     ["C16"], "Broadcast kind ignores the recipient predicate"),
    ("m19_leave_without_members_stays", "src/lib.rs",
     "        self.gossip(&mut runtime)?;\n\n        // We could try to be smart here",
     "        self.gossip(&mut runtime)?;\n        if self.members.num_active() == 0 {\n            return Ok(());\n        }\n\n        // We could try to be smart here",
     ["C08"], "leave_cluster with no active member does not become defunct"),
    ("m20_probe_pings_down", "src/member.rs",
     "            .position(|m| m.is_active())\n            // Since we skip()", "            .position(|m| m.is_active() || m.incarnation() > 2)\n            // Since we skip()",
     ["C14", "C12"], "a Down member with incarnation > 2 gets probed"),
]

def sh(cmd, cwd=None, timeout=3600):
    p = subprocess.run(cmd, shell=True, cwd=cwd, capture_output=True, text=True, timeout=timeout)
    return p.returncode, p.stdout + p.stderr

def main():
    want = sys.argv[1:]
    os.makedirs(f"{VERIF}/mutants", exist_ok=True)
    rc, out = sh("git status --porcelain", REPO)
    if out.strip():
        print("refusing: /repo has uncommitted changes"); sys.exit(2)
    rows = []
    for name, path, old, new, checks, note in MUTANTS:
        if want and name not in want: continue
        if name == "m08b_bump_on_stale_suspicion": continue
        src = open(f"{REPO}/{path}").read()
        if src.count(old) != 1:
            rows.append((name, "PATTERN-NOT-FOUND", "", "", note)); print(name, "pattern count", src.count(old)); continue
        try:
            open(f"{REPO}/{path}", "w").write(src.replace(old, new))
            rc, diff = sh("git diff -- src", REPO)
            open(f"{VERIF}/mutants/{name}.patch", "w").write(diff)
            rc, out = sh("cargo test --workspace --no-fail-fast --offline 2>&1 | grep -E '^test result|^error' | head -3", REPO)
            tests = out.strip().splitlines()[0] if out.strip() else "?"
            compiled = not out.startswith("error")
            passed = "79 passed; 0 failed" in tests
            res = []
            if compiled:
                for c in checks:
                    rc, o = sh(f"./check {c} quick", VERIF)
                    sigs = [l.strip().split("]")[0].lstrip("[") for l in o.splitlines() if l.startswith("  [")]
                    res.append(f"{c}:{'CAUGHT' if rc == 1 else ('missed' if rc == 0 else 'ERR'+str(rc))}" + (f" ({sigs[0]})" if sigs else ""))
            rows.append((name, "tests pass" if passed else ("does not compile" if not compiled else "tests FAIL: " + tests[:60]), ", ".join(res), note))
            print(rows[-1])
        finally:
            sh("git checkout -q -- .", REPO)
    with open(f"{VERIF}/mutants/RESULTS.md", "a") as f:
        for r in rows:
            f.write("| " + " | ".join(r) + " |\n")

if __name__ == "__main__":
    main()
