#!/bin/bash
# Re-runs, for every stored seeded change, the quick check of the property it
# was written against (patch applied to /repo, always restored). Prints one
# line per seed; exit 1 if any seed is no longer reported.
cd /verif || exit 2
miss=0
for d in seeded/*/; do
  id=$(basename $d); prop=${id%%-*}
  out=$(tools/try_change.sh /verif/$d/patch.diff quick $prop 2>&1)
  code=$(echo "$out" | grep -E "^== $prop exit=" | sed -E 's/.*exit=//')
  sig=$(echo "$out" | grep -E "^  \[" | head -1 | sed -E 's/^  \[([^]]*)\].*/\1/')
  echo "$id $prop exit=$code $sig"
  [ "$code" = 1 ] || miss=1
done
exit $miss
