//! C05 (healed partition converges back, engine E2 with fault enumeration)
//! and C18 (reply cascades terminate: all delivery orders, timers frozen).
use crate::core::*;
use crate::doubles::*;
use crate::e2::*;
use crate::e2_checks::{form_cluster, PERIOD, SUSPECT};
use crate::report::Report;
use crate::rng;
use foca::{Identity, Member, Message, OwnedNotification as N, State};
use rayon::prelude::*;
use serde_json::json;
use std::collections::{BTreeMap, HashSet};

// ======================================================================
// C05
// ======================================================================

pub const ANNOUNCE_DOWN: u64 = 500;

#[derive(Clone, Debug)]
pub struct C05Cell {
    pub n: usize,
    /// members 0..side_a are one side, the rest the other
    pub side_a: usize,
    /// offset between the members' start instants during formation
    pub phase: u64,
    /// the partition starts after this many events of the window
    pub start_event: u64,
    /// extra partition time after both sides declared each other Down
    pub extra: u64,
    /// asymmetric variant: nobody is partitioned; node 0 is falsely declared
    /// Down by an injected Down(0) gossip at node 1
    pub asymmetric: bool,
    /// every member refuted a suspicion before the partition (incarnation > 0)
    pub bumped: bool,
    /// the same partition happens twice (see e2_c05b)
    pub twice: bool,
    /// max_transmissions (5 normally; 1 = most datagrams after the heal carry
    /// no update at all)
    pub mt: u8,
}

impl C05Cell {
    pub fn label(&self) -> String {
        if self.asymmetric {
            format!("n={} asymmetric-false-down phase={} at-event={} refuted-before={}", self.n, self.phase, self.start_event, self.bumped)
        } else if self.twice {
            format!("n={} split={}/{} phase={} partition-at-event={} TWO EPISODES first-heal=mutual-down+{} second-heal=first-down+remove_down_after+20+{}", self.n, self.side_a, self.n - self.side_a, self.phase, self.start_event, self.extra, self.extra)
        } else {
            format!("n={} split={}/{} phase={} partition-at-event={} heal=mutual-down+{} refuted-before={} max_transmissions={}", self.n, self.side_a, self.n - self.side_a, self.phase, self.start_event, self.extra, self.bumped, self.mt)
        }
    }
}

fn c05_cfg(mt: u8) -> Cfg {
    Cfg { probe_period: PERIOD, probe_rtt: 40, suspect_to_down: SUSPECT, remove_down: 1_000_000, notify_down: true, announce_down: Some((ANNOUNCE_DOWN, 2)), fanout: 3, max_tx: mt, ..Cfg::default() }
}

pub fn run_c05(cell: &C05Cell, devs: &BTreeMap<usize, usize>) -> RunResult {
    if cell.twice {
        return crate::e2_c05b::run(cell, devs);
    }
    let n = cell.n;
    let mut res = RunResult::default();
    let mut sim = Sim::new(n, SimOpts { lat_menu: vec![1, 9], words: rng::menu(n + 1, n.min(5)), record_sends: false, record_received: false });
    // the cluster forms with the regular dissemination budget (with
    // max_transmissions 1 larger clusters do not even form: F8); the cell's
    // own value is set afterwards, through set_config
    let cfg = c05_cfg(5);
    if let Err(e) = form_cluster(&mut sim, n, &cfg, true, cell.phase) {
        res.violations.push(("machinery:formation".into(), e));
        return res;
    }
    if cell.mt != 5 {
        for a in 0..n as u8 {
            sim.call(a, &Ev::SetConfig(Box::new(c05_cfg(cell.mt))));
        }
    }
    let mut k = 0;
    while k < cell.start_event {
        if sim.step(u64::MAX).is_none() {
            break;
        }
        k += 1;
    }
    let all: Vec<u8> = (0..n as u8).collect();
    let old_ids: Vec<Id> = all.iter().map(|a| *sim.nodes[*a as usize].as_ref().unwrap().identity()).collect();
    if cell.bumped {
        // an earlier, long-refuted suspicion: every member's incarnation is
        // already above 0 when the partition starts
        for a in &all {
            sim.call(*a, &Ev::Apply(vec![Member::new(old_ids[*a as usize], 0, State::Suspect)], true));
        }
        let until = sim.now + 3 * PERIOD;
        while sim.step(until).is_some() {}
    }
    let t_heal;
    if cell.asymmetric {
        // node 1 is told that node 0 is Down
        sim.call(1, &Ev::Apply(vec![Member::new(old_ids[0], 0, State::Down)], true));
        t_heal = sim.now;
    } else {
        let side = |a: u8| (a as usize) < cell.side_a;
        for a in 0..n {
            for b in 0..n {
                sim.blocked[a][b] = side(a as u8) != side(b as u8);
            }
        }
        // until both sides hold every member of the other side Down
        let limit = sim.now + (3 * n as u64 + 6) * PERIOD + SUSPECT;
        loop {
            if sim.step(limit).is_none() {
                break;
            }
            let mutual = all.iter().all(|a| {
                let v = sim.view(*a).unwrap();
                all.iter().filter(|b| side(**b) != side(*a)).all(|b| v.members.iter().any(|m| m.id().addr == *b && m.state() == State::Down))
            });
            if mutual {
                break;
            }
        }
        let until = sim.now + cell.extra;
        while sim.step(until).is_some() {}
        for a in 0..n {
            for b in 0..n {
                sim.blocked[a][b] = false;
            }
        }
        t_heal = sim.now.max(until);
    }
    for l in sim.logs.iter_mut() {
        l.notes.clear();
    }
    sim.chooser.deviations = devs.clone();
    sim.chooser.recording = true;
    let k_periods = 8;
    let horizon = t_heal + k_periods * ANNOUNCE_DOWN;
    let record_until = t_heal + ANNOUNCE_DOWN + 100;
    let mut converged_at: Option<u64> = None;
    let mut last_send_count = sim.sent_count;
    let mut last_activity = sim.now;
    while let Some((t, _)) = sim.step(horizon) {
        if t > record_until {
            sim.chooser.recording = false;
        }
        if sim.sent_count != last_send_count {
            last_send_count = sim.sent_count;
            last_activity = t;
        }
        if converged_at.is_none() && sim.fully_meshed(&all) {
            converged_at = Some(t);
        }
        if sim.panicked.is_some() {
            break;
        }
    }
    if let Some(p) = &sim.panicked {
        res.violations.push(("c05:panic".into(), p.clone()));
    }
    if std::env::var("VERIF_TRACE").is_ok() {
        println!("heal at t={t_heal}, horizon {horizon}");
        for a in &all {
            for (t, x) in &sim.logs[*a as usize].notes {
                println!("  t={t} node {a}: {}", show_note(x));
            }
            println!("  node {a} finally: {}", sim.view(*a).map(|v| v.show()).unwrap_or_default());
        }
    }
    // Rejoin discipline
    for a in &all {
        let notes = &sim.logs[*a as usize].notes;
        let old = old_ids[*a as usize];
        let mut cur = old;
        let mut rejoined = false;
        let mut active_after = false;
        for (t, x) in notes {
            match x {
                N::Defunct => res.violations.push(("c05:defunct".into(), format!("t={t} node {a} notified Defunct although its identity is renewable [{}]", cell.label()))),
                N::Rejoin(new) => {
                    if *new == cur || !new.win_addr_conflict(&cur) {
                        res.violations.push(("c05:rejoin-not-winning".into(), format!("t={t} node {a} rejoined as {} which does not win against {} [{}]", new.show(), cur.show(), cell.label())));
                    }
                    cur = *new;
                    rejoined = true;
                    active_after = false;
                }
                N::Active if rejoined => active_after = true,
                _ => {}
            }
        }
        if rejoined && !active_after && converged_at.is_some() {
            res.violations.push(("c05:no-active-after-rejoin".into(), format!("node {a} rejoined as {} but never notified Active afterwards [{}]", cur.show(), cell.label())));
        }
    }
    match converged_at {
        Some(t) => {
            res.metrics.insert("convergence_announce_periods_x100".into(), (t - t_heal) * 100 / ANNOUNCE_DOWN);
        }
        None => {
            // classify the symptom
            let inactive = all.iter().all(|a| {
                let notes = &sim.logs[*a as usize].notes;
                let last = notes.iter().rev().find(|(_, x)| matches!(x, N::Active | N::Idle | N::Rejoin(_) | N::Defunct));
                matches!(last, Some((_, N::Rejoin(_))) | Some((_, N::Idle)))
            });
            let silent = horizon - last_activity >= 3 * ANNOUNCE_DOWN;
            let views: Vec<String> = all.iter().filter_map(|a| sim.view(*a).map(|v| v.show())).collect();
            if inactive && silent {
                res.violations.push((
                    "all-instances-disconnected-no-effective-timer".into(),
                    format!("after the heal every instance renewed its identity, none became Active again and the cluster has been silent for {} ticks: {} [{}]", horizon - last_activity, views.join(" | "), cell.label()),
                ));
            } else {
                res.violations.push(("c05:not-converged".into(), format!("{} announce-to-down periods after the heal not every live instance lists every other: {} [{}]", k_periods, views.join(" | "), cell.label())));
            }
        }
    }
    res.events = sim.events_processed;
    res.points = sim.chooser.points;
    res
}

/// `verif replay` support / debugging: run one cell and print the outcome.
pub fn c05_show(cell: &C05Cell, devs: &BTreeMap<usize, usize>) -> i32 {
    let r = run_c05(cell, devs);
    println!("cell {}", cell.label());
    println!("events {}  choice points {}  metrics {:?}", r.events, r.points.len(), r.metrics);
    for (s, w) in &r.violations {
        println!("VIOLATED [{s}] {w}");
    }
    if r.violations.is_empty() {
        0
    } else {
        1
    }
}

pub fn c05(tier: &str) -> Report {
    let th = tier == "thorough";
    crate::e2::set_budget(if tier == "thorough" { 900.0 } else { 240.0 });
    let mut rep = Report::new("C05", tier, "fault_enumeration");
    let mut cells: Vec<(C05Cell, usize)> = Vec::new();
    let ns: Vec<usize> = if th { vec![3, 4, 5, 6, 7] } else { vec![3, 4, 5] };
    for &n in &ns {
        for phase in [0u64, 1, 17] {
            // every split shape up to symmetry with at least one side >= 2
            for side_a in 1..=n / 2 {
                if (n - side_a).max(side_a) < 2 {
                    continue;
                }
                let starts: Vec<u64> = if th { (0..(4 * n as u64)).collect() } else { (0..(4 * n as u64)).step_by(2).collect() };
                // heal instants: swept over one announce-to-down period
                let extras: Vec<u64> = if th { (0..=ANNOUNCE_DOWN).step_by(10).chain([7 * PERIOD]).collect() } else { (0..=ANNOUNCE_DOWN).step_by(50).chain([7 * PERIOD]).collect() };
                for (si, &start_event) in starts.iter().enumerate() {
                    for (ei, extra) in extras.iter().enumerate() {
                        // one deviation (latency / tie-break / RNG answer) in the first
                        // announce-to-down period after the heal, on a regular sub-grid
                        let d = if th { usize::from(n <= 5 && ei % 5 == 0) } else { usize::from(n <= 4 || (si % 2 == 0 && ei % 4 == 0)) };
                        cells.push((C05Cell { n, side_a, phase, start_event, extra: *extra, asymmetric: false, bumped: false, twice: false, mt: 5 }, d));
                        // max_transmissions 1: after the first datagram nothing
                        // carries an update any more
                        if ei % 2 == 0 || th {
                            cells.push((C05Cell { n, side_a, phase, start_event, extra: *extra, asymmetric: false, bumped: false, twice: false, mt: 1 }, d));
                        }
                        if si % 2 == 0 && ei < 3 {
                            cells.push((C05Cell { n, side_a, phase, start_event, extra: *extra, asymmetric: false, bumped: true, twice: false, mt: 5 }, 0));
                        }
                    }
                }
            }
            // the same partition twice, second heal after the first episode's
            // forget-timers fired
            for side_a in 1..=n / 2 {
                if (n - side_a).max(side_a) < 2 || (!th && n > 4) {
                    continue;
                }
                for start_event in (0..(4 * n as u64)).step_by(if th { 1 } else { 4 }) {
                    for extra in if th { vec![0u64, 50, 130, 255, 380, 500] } else { vec![0u64, 130] } {
                        cells.push((C05Cell { n, side_a, phase, start_event, extra, asymmetric: false, bumped: false, twice: true, mt: 5 }, usize::from(th && n <= 4)));
                    }
                }
            }
            for start_event in (0..(4 * n as u64)).step_by(if th { 1 } else { 4 }) {
                cells.push((C05Cell { n, side_a: 0, phase, start_event, extra: 0, asymmetric: true, bumped: false, twice: false, mt: 5 }, usize::from(th || n == 3)));
                cells.push((C05Cell { n, side_a: 0, phase, start_event, extra: 0, asymmetric: true, bumped: true, twice: false, mt: 5 }, 0));
            }
        }
    }
    let results: Vec<(String, DevStats, Vec<DevViolation>)> = cells
        .par_iter()
        .map(|(c, d)| {
            let f = |devs: &BTreeMap<usize, usize>| run_c05(c, devs);
            let (st, vs) = explore_deviations(&f, *d, if th { 200_000 } else { 20_000 });
            (c.label(), st, vs)
        })
        .collect();
    let mut execs = 0u64;
    let mut events = 0u64;
    let mut worst = 0u64;
    let mut seen = std::collections::BTreeSet::new();
    let mut stuck_cells = Vec::new();
    for (lab, st, vs) in results {
        execs += st.executions;
        events += st.events;
        worst = worst.max(st.metrics.get("convergence_announce_periods_x100").copied().unwrap_or(0));
        for v in vs {
            if v.signature == "all-instances-disconnected-no-effective-timer" && stuck_cells.len() < 12 {
                stuck_cells.push(lab.clone());
            }
            if seen.insert(v.signature.clone()) {
                if v.signature.starts_with("machinery:") {
                    // a scenario that could not be set up is the harness's
                    // problem, never a verdict about the property
                    rep.machinery(format!("{} {} [{}]", v.signature, v.what, lab));
                } else {
                    rep.violate(&v.signature, format!("{} [deviations: {:?}]", v.what, v.deviations), json!({"engine": "e2", "property": "C05", "cell": lab, "deviations": v.deviations}));
                }
            }
        }
    }
    rep.states = execs;
    rep.transitions = events;
    rep.evaluations = execs;
    rep.distinct_nontrivial = cells.len() as u64;
    rep.set("fault_cells", json!(cells.len()));
    rep.set("executions", json!(execs));
    rep.set("worst_convergence_in_announce_to_down_periods_x100", json!(worst));
    rep.set("cells_ending_in_the_known_stuck_state(sample)", json!(stuck_cells));
    {
        let c = &cells[cells.len() / 2].0;
        let tr = trace_one(40, || {
            run_c05(c, &BTreeMap::new());
        });
        rep.sample(json!({"cell": c.label(), "schedule": "default", "events_after_the_heal": tr}));
    }
    rep.rule = "fault cells = cluster size x every split shape (up to symmetry) x formation phase offset {0,1,17} x partition start at event indices of the window x heal instant (mutual Down + {0, 1, 7 probe periods, 130, 255, 380 ticks}) plus the asymmetric case (a single live member falsely declared Down) plus the two-episode shape (the same partition twice, remove_down_after 9000 ticks, second heal right after the first episode's forget-timers fired); on top of selected cells every schedule with <= 1 deviation in the first announce-to-down period after the heal. distinct = fault cells".into();
    rep.assume("renewable identities, notify_down_members, periodic_announce_to_down_members(500 ticks, 2 members); convergence bound asserted: 8 announce-to-down periods after the heal");
    rep
}

// ======================================================================
// C18
// ======================================================================

/// What an instance knows about another one.
#[derive(Clone, Copy, Debug, PartialEq, Eq, Hash)]
pub enum Know {
    Unknown,
    Alive,
    Suspect,
    Down,
    OlderGen,
    NewerGen,
}
pub const KNOWS: [Know; 6] = [Know::Unknown, Know::Alive, Know::Suspect, Know::Down, Know::OlderGen, Know::NewerGen];

#[derive(Clone, Debug)]
pub struct C18World {
    pub renew: bool,
    /// renew() hands out an identity that LOSES against the current one (a
    /// generation counter that wrapped): Foca must refuse it
    pub renew_loses: bool,
    pub notify_down: bool,
    pub fanout: usize,
    /// know[i][j]: what i knows about j
    pub know: Vec<Vec<Know>>,
    /// knows an (absent) third party as alive, so it can be active on its own
    pub has_other: Vec<bool>,
    pub defunct: Vec<bool>,
    /// the instance refuted a suspicion earlier (own incarnation 1)
    pub bumped: Vec<bool>,
    /// what the others hold about a bumped instance carries its current
    /// incarnation (1) instead of the stale 0
    pub known_current: bool,
}

fn c18_build(w: &C18World) -> Vec<F> {
    let k = w.know.len();
    let cfg = Cfg { notify_down: w.notify_down, fanout: w.fanout, ..Cfg::default() };
    // the "renew() loses" worlds sit at the top of the generation counter
    let base: u8 = if w.renew_loses { 255 } else { 1 };
    let ident = |a: usize| id(a as u8, base).with(if w.renew_loses { Renew::Wrap } else if w.renew { Renew::Next } else { Renew::None });
    let mut v = Vec::new();
    for i in 0..k {
        let mut f = new_foca(ident(i), &cfg, FixCodec::default(), TableHandler::new(InvMode::NewerVersion));
        if w.bumped[i] {
            run_event(&mut f, &Ev::Apply(vec![Member::new(ident(i), 0, State::Suspect)], true), &[0, 0]);
        }
        let mut ups = Vec::new();
        for j in 0..k {
            if i == j {
                continue;
            }
            let j1 = id(j as u8, base);
            let inc = u16::from(w.bumped[j] && w.known_current);
            match w.know[i][j] {
                Know::Unknown => {}
                Know::Alive => ups.push(Member::new(j1, inc, State::Alive)),
                Know::Suspect => ups.push(Member::new(j1, inc, State::Suspect)),
                Know::Down => ups.push(Member::new(j1, inc, State::Down)),
                Know::OlderGen => ups.push(Member::new(id(j as u8, base - 1), 0, State::Alive)),
                Know::NewerGen => ups.push(Member::new(id(j as u8, base.wrapping_add(1)), 0, State::Alive)),
            }
        }
        if w.has_other[i] {
            ups.push(Member::new(id(7, 0), 0, State::Alive));
        }
        run_event(&mut f, &Ev::Apply(ups, false), &[0, 0, 0, 0]);
        if w.defunct[i] {
            run_event(&mut f, &Ev::Leave, &[0, 0, 0]);
            // the leave gossip itself is not part of the cascade under test
        }
        v.push(f);
    }
    v
}

fn masked_key(nodes: &[F], flight: &[(u8, Vec<u8>)]) -> u128 {
    let snaps: Vec<_> = nodes
        .iter()
        .map(|f| {
            let mut s = f.verif_snapshot();
            s.timer_token = 0;
            s.probe_number = 0;
            s
        })
        .collect();
    let mut fl = flight.to_vec();
    fl.sort();
    hash128(&(snaps, fl))
}

pub struct CascadeOut {
    pub deliveries: u64,
    pub longest: usize,
    pub max_fanout: usize,
    pub violation: Option<(String, String)>,
}

/// All delivery orders of the cascade started by `first` (to address `to`).
fn cascade(w: &C18World, first: (u8, Vec<u8>), cap: usize) -> CascadeOut {
    let nodes = c18_build(w);
    let codec = FixCodec::default();
    let mut out = CascadeOut { deliveries: 0, longest: 0, max_fanout: 0, violation: None };
    // DFS: (nodes, in-flight multiset, datagrams so far, path keys)
    struct Frame {
        nodes: Vec<F>,
        flight: Vec<(u8, Vec<u8>)>,
        count: usize,
        path: Vec<u128>,
        trail: Vec<String>,
    }
    let mut seen: HashSet<u128> = HashSet::new();
    let mut stack = vec![Frame { nodes, flight: vec![first], count: 1, path: vec![], trail: vec![] }];
    while let Some(fr) = stack.pop() {
        if fr.flight.is_empty() {
            out.longest = out.longest.max(fr.count);
            continue;
        }
        let key = masked_key(&fr.nodes, &fr.flight);
        if fr.path.contains(&key) {
            out.violation = Some(("c18:cycle".into(), format!("the same global state (modulo timer token / probe number) repeats along a delivery path: {}", fr.trail.join(" ; "))));
            return out;
        }
        if !seen.insert(key) {
            continue;
        }
        let mut tried: Vec<&(u8, Vec<u8>)> = Vec::new();
        for (i, dg) in fr.flight.iter().enumerate() {
            if tried.contains(&dg) {
                continue;
            }
            tried.push(dg);
            let (to, bytes) = dg;
            let mut nodes = fr.nodes.clone();
            let mut flight = fr.flight.clone();
            flight.remove(i);
            let mut emitted = 0;
            let mut trail = fr.trail.clone();
            trail.push(format!("deliver {}", show_dgram(&codec, bytes)));
            if (*to as usize) < nodes.len() {
                let o = run_event(&mut nodes[*to as usize], &Ev::Data(bytes.clone()), &[0, 0, 0, 0, 0, 0]);
                out.deliveries += 1;
                if let Some(p) = o.panic {
                    out.violation = Some(("c18:panic".into(), format!("{p} after {}", trail.join(" ; "))));
                    return out;
                }
                for (t, d) in o.sends() {
                    emitted += 1;
                    flight.push((t.addr, d.clone()));
                }
            }
            out.max_fanout = out.max_fanout.max(emitted);
            if emitted > 2 * w.fanout + 2 {
                out.violation = Some(("c18:too-many-replies".into(), format!("one delivery caused {} new datagrams (bound 2F+2={}): {}", emitted, 2 * w.fanout + 2, trail.join(" ; "))));
                return out;
            }
            let count = fr.count + emitted;
            if count > cap {
                let kinds: Vec<String> = trail.iter().rev().take(6).rev().cloned().collect();
                let sig = if kinds.iter().filter(|k| k.contains("TurnUndead")).count() >= 4 { "c18:turnundead-ping-pong" } else { "c18:storm" };
                out.violation = Some((sig.into(), format!("the exchange exceeded {} datagrams without draining; last deliveries: {}", cap, kinds.join(" ; "))));
                return out;
            }
            let mut path = fr.path.clone();
            path.push(key);
            stack.push(Frame { nodes, flight, count, path, trail });
        }
    }
    out
}

fn c18_initial_datagrams(w: &C18World, nodes: &[F]) -> Vec<(u8, Vec<u8>)> {
    let codec = FixCodec::default();
    let k = nodes.len();
    let mut v = Vec::new();
    for i in 0..k {
        let src = *nodes[i].identity();
        let inc = nodes[i].verif_snapshot().incarnation;
        for j in 0..k {
            if i == j {
                continue;
            }
            // destinations: the identity j really has, and the one i believes in
            let mut dsts = vec![*nodes[j].identity()];
            let base: u8 = if w.renew_loses { 255 } else { 1 };
            match w.know[i][j] {
                Know::OlderGen => dsts.push(id(j as u8, base - 1)),
                Know::NewerGen => dsts.push(id(j as u8, base.wrapping_add(1))),
                _ => {}
            }
            let third = id(((0..k).find(|x| *x != i && *x != j).unwrap_or(7)) as u8, base);
            for dst in dsts {
                let msgs: Vec<(Message<Id>, bool)> = vec![
                    (Message::Ping(3), true),
                    (Message::Ack(3), true),
                    (Message::PingReq { target: third, probe_number: 3 }, true),
                    (Message::IndirectPing { origin: third, probe_number: 3 }, true),
                    (Message::IndirectAck { target: third, probe_number: 3 }, true),
                    (Message::ForwardedAck { origin: third, probe_number: 3 }, true),
                    (Message::Announce, false),
                    (Message::Feed, true),
                    (Message::Gossip, true),
                    (Message::Broadcast, false),
                    (Message::TurnUndead, false),
                ];
                for (m, pig) in msgs {
                    v.push((j as u8, dgram(&codec, src, inc, dst, m.clone(), None, &[])));
                    if pig && matches!(m, Message::Gossip | Message::Ping(_)) {
                        // carrying what the sender believes about the receiver
                        let belief = match w.know[i][j] {
                            Know::Suspect => Some(Member::new(*nodes[j].identity(), 0, State::Suspect)),
                            Know::Down => Some(Member::new(*nodes[j].identity(), 0, State::Down)),
                            _ => None,
                        };
                        if let Some(b) = belief {
                            v.push((j as u8, dgram(&codec, src, inc, dst, m, Some(&[b]), &[])));
                        }
                    }
                }
            }
        }
    }
    v
}

pub fn c18(tier: &str) -> Report {
    let th = tier == "thorough";
    let mut rep = Report::new("C18", tier, "model_checking");
    let cap = 64usize;
    let mut worlds: Vec<C18World> = Vec::new();
    // pairs: the full domain
    for (renew, renew_loses) in [(false, false), (true, false), (true, true)] {
        for notify_down in [false, true] {
            for &fanout in &[1usize, 3] {
                for ka in KNOWS {
                    for kb in KNOWS {
                        for oa in [false, true] {
                            for ob in [false, true] {
                                for da in [false, true] {
                                    for db in [false, true] {
                                        for (ba, bb, known_current) in [(false, false, false), (true, false, false), (true, true, false), (true, false, true), (true, true, true)] {
                                            worlds.push(C18World { renew, renew_loses, notify_down, fanout, know: vec![vec![Know::Unknown, ka], vec![kb, Know::Unknown]], has_other: vec![oa, ob], defunct: vec![da, db], bumped: vec![ba, bb], known_current });
                                        }
                                    }
                                }
                            }
                        }
                    }
                }
            }
        }
    }
    let pairs = worlds.len();
    // triples: reduced domain
    let tk: &[Know] = if th { &[Know::Alive, Know::Suspect, Know::Down, Know::OlderGen] } else { &[Know::Alive, Know::Down] };
    for renew in [false, true] {
        for notify_down in [false, true] {
            let mut idx = vec![0usize; 6];
            loop {
                let g = |p: usize| tk[idx[p]];
                for defunct0 in [false, true] {
                    for (bumped, known_current) in [(false, false), (true, false), (true, true)] {
                        worlds.push(C18World { renew, renew_loses: false, notify_down, fanout: 3, know: vec![vec![Know::Unknown, g(0), g(1)], vec![g(2), Know::Unknown, g(3)], vec![g(4), g(5), Know::Unknown]], has_other: vec![false; 3], defunct: vec![defunct0, false, false], bumped: vec![bumped; 3], known_current });
                    }
                }
                let mut p = 0;
                loop {
                    idx[p] += 1;
                    if idx[p] < tk.len() {
                        break;
                    }
                    idx[p] = 0;
                    p += 1;
                    if p == 6 {
                        break;
                    }
                }
                if p == 6 {
                    break;
                }
            }
        }
    }
    let results: Vec<(u64, u64, usize, usize, Option<(String, String, String)>)> = worlds
        .par_iter()
        .map(|w| {
            let nodes = c18_build(w);
            let firsts = c18_initial_datagrams(w, &nodes);
            let mut deliveries = 0;
            let mut longest = 0;
            let mut maxf = 0;
            let mut n_casc = 0;
            for f in firsts {
                n_casc += 1;
                let first_desc = show_dgram(&FixCodec::default(), &f.1);
                let o = cascade(w, f, cap);
                deliveries += o.deliveries;
                longest = longest.max(o.longest);
                maxf = maxf.max(o.max_fanout);
                if let Some((s, e)) = o.violation {
                    return (n_casc, deliveries, longest, maxf, Some((s, e, format!("first datagram {first_desc}; world {:?}", w))));
                }
            }
            (n_casc, deliveries, longest, maxf, None)
        })
        .collect();
    let mut cascades = 0;
    let mut deliveries = 0;
    let mut longest = 0;
    let mut maxf = 0;
    let mut seen = std::collections::BTreeSet::new();
    let mut violating_worlds = 0u64;
    for (c, d, l, m, v) in results {
        cascades += c;
        deliveries += d;
        longest = longest.max(l);
        maxf = maxf.max(m);
        if let Some((s, e, ctx)) = v {
            violating_worlds += 1;
            if seen.insert(s.clone()) {
                rep.violate(&s, format!("{e} [{ctx}]"), json!({"engine": "e2-cascade", "property": "C18", "context": ctx}));
            }
        }
    }
    rep.states = cascades;
    rep.transitions = deliveries;
    rep.evaluations = cascades;
    rep.distinct_nontrivial = worlds.len() as u64;
    rep.exhaustive = true;
    rep.set("worlds", json!({"pairs": pairs, "triples": worlds.len() - pairs}));
    rep.set("cascades(world x initial datagram)", json!(cascades));
    rep.set("deliveries", json!(deliveries));
    rep.set("longest_terminating_cascade_datagrams", json!(longest));
    rep.set("max_new_datagrams_per_delivery", json!(maxf));
    rep.set("violating_worlds", json!(violating_worlds));
    rep.sample(json!({"world": "A and B non-renewable, each holds the other Down, notify_down_members; first datagram A->B Ping"}));
    rep.rule = "worlds = mutual-knowledge states of pairs (each side: unknown / alive / suspect / down / older / newer generation of the other; with or without an absent third party; active or defunct) and triples (reduced domain) x renewable x notify_down_members x fan-out, built with apply_many / leave_cluster; every initial datagram kind from every instance to every other (also to a superseded identity); then ALL delivery orders of the in-flight multiset (DFS, dedup on global state), timers never fired. distinct = worlds".into();
    rep.assume("cap of 64 datagrams per exchange is part of the oracle (the TurnUndead ping-pong only repeats a state after 256 bounces because every bounce bumps the 8-bit timer token); states are compared modulo timer token and probe number");
    rep
}
