//! Test doubles: identities, codecs, runtime, broadcast handler.
//!
//! All of them are *total*: they never panic, so any panic observed by a
//! check is Foca's own.
use bytes::{Buf, BufMut};
use foca::{
    BroadcastHandler, Codec, Header, Identity, Invalidates, Member, Message, Notification,
    OwnedNotification, Runtime, State, Timer,
};
use std::hash::{Hash, Hasher};
use std::time::Duration;

/// What `Identity::renew` yields for the *local* copy of an identity.
#[derive(Clone, Copy, Debug, PartialEq, Eq, PartialOrd, Ord, Hash, serde::Serialize, serde::Deserialize)]
pub enum Renew {
    /// not renewable
    None,
    /// next generation (wins)
    Next,
    /// identical identity (must be treated as failure)
    Same,
    /// previous generation (loses the conflict; must be treated as failure)
    Losing,
    /// next generation modulo 256: at generation 255 it hands out generation
    /// 0, which loses (a long-lived counter that wrapped)
    Wrap,
}

/// `(addr, gen)` identity. Equality is on `(addr, gen)`; the identity with the
/// greater generation wins the address conflict (a strict total order per
/// address). `pol` is not part of the identity: it only decides what the
/// local instance gets from `renew()` and never travels on the wire.
#[derive(Clone, Copy, Debug, serde::Serialize, serde::Deserialize)]
pub struct Id {
    pub addr: u8,
    pub gen: u8,
    pub pol: Renew,
}

pub const fn id(addr: u8, gen: u8) -> Id {
    Id { addr, gen, pol: Renew::None }
}

impl Id {
    pub const fn with(self, pol: Renew) -> Id {
        Id { pol, ..self }
    }
    pub fn show(&self) -> String {
        format!("{}.{}", (b'A' + self.addr) as char, self.gen)
    }
}
impl PartialEq for Id {
    fn eq(&self, o: &Self) -> bool {
        self.addr == o.addr && self.gen == o.gen
    }
}
impl Eq for Id {}
impl Hash for Id {
    fn hash<H: Hasher>(&self, h: &mut H) {
        self.addr.hash(h);
        self.gen.hash(h);
    }
}
impl PartialOrd for Id {
    fn partial_cmp(&self, o: &Self) -> Option<std::cmp::Ordering> {
        Some(self.cmp(o))
    }
}
impl Ord for Id {
    fn cmp(&self, o: &Self) -> std::cmp::Ordering {
        (self.addr, self.gen).cmp(&(o.addr, o.gen))
    }
}

impl Identity for Id {
    type Addr = u8;
    fn renew(&self) -> Option<Self> {
        match self.pol {
            Renew::None => None,
            Renew::Next => self.gen.checked_add(1).map(|g| Id { gen: g, ..*self }),
            Renew::Same => Some(*self),
            Renew::Losing => self.gen.checked_sub(1).map(|g| Id { gen: g, ..*self }),
            Renew::Wrap => Some(Id { gen: self.gen.wrapping_add(1), ..*self }),
        }
    }
    fn addr(&self) -> u8 {
        self.addr
    }
    fn win_addr_conflict(&self, adversary: &Self) -> bool {
        self.gen > adversary.gen
    }
}

#[derive(Debug, Clone, Copy, PartialEq, Eq)]
pub struct CodecErr(pub &'static str);
impl std::fmt::Display for CodecErr {
    fn fmt(&self, f: &mut std::fmt::Formatter<'_>) -> std::fmt::Result {
        f.write_str(self.0)
    }
}
impl std::error::Error for CodecErr {}

/// Fixed-width codec: header = src(2) inc(2) dst(2) kind(1) [probeno(1) |
/// id(2) probeno(1)]; member = id(2) inc(2) state(1). Bounds-checked in both
/// directions; returns `Err` instead of panicking.
///
/// `var` switches to a variable-length identity encoding (`addr`, `gen`, then
/// `gen % 3` padding bytes 0xEE) for the variable-size clauses of C07/C15.
#[derive(Clone, Copy, Debug, Default)]
pub struct FixCodec {
    pub var: bool,
    /// a bit-packing wire format: a member takes TWO bytes when its address
    /// and generation are below 16 and its incarnation below 63 (the common
    /// case), an escape form otherwise. Nothing in Foca may assume a minimum
    /// encoded size of a member.
    pub packed: bool,
    /// a codec that FAILS (returns an error, never panics) when asked to
    /// encode a Down member: Foca may report the error, it must not panic
    /// now or later
    pub fail_down: bool,
}

pub const K_PING: u8 = 1;
pub const K_ACK: u8 = 2;
pub const K_PINGREQ: u8 = 3;
pub const K_IPING: u8 = 4;
pub const K_IACK: u8 = 5;
pub const K_FACK: u8 = 6;
pub const K_ANNOUNCE: u8 = 7;
pub const K_FEED: u8 = 8;
pub const K_GOSSIP: u8 = 9;
pub const K_BROADCAST: u8 = 10;
pub const K_TURNUNDEAD: u8 = 11;

impl FixCodec {
    pub fn id_len(&self, i: &Id) -> usize {
        if self.var {
            2 + (i.gen % 3) as usize
        } else {
            2
        }
    }
    fn put_id(&self, v: &mut Vec<u8>, i: &Id) {
        v.push(i.addr);
        v.push(i.gen);
        if self.var {
            for _ in 0..(i.gen % 3) {
                v.push(0xEE);
            }
        }
    }
    fn get_id(&self, b: &mut impl Buf) -> Result<Id, CodecErr> {
        if b.remaining() < 2 {
            return Err(CodecErr("short id"));
        }
        let addr = b.get_u8();
        let gen = b.get_u8();
        if self.var {
            let pad = (gen % 3) as usize;
            if b.remaining() < pad {
                return Err(CodecErr("short id padding"));
            }
            for _ in 0..pad {
                if b.get_u8() != 0xEE {
                    return Err(CodecErr("bad id padding"));
                }
            }
        }
        Ok(id(addr, gen))
    }
    pub fn header_bytes(&self, h: &Header<Id>) -> Vec<u8> {
        let mut v = Vec::with_capacity(12);
        self.put_id(&mut v, &h.src);
        v.put_u16(h.src_incarnation);
        self.put_id(&mut v, &h.dst);
        match &h.message {
            Message::Ping(n) => {
                v.push(K_PING);
                v.push(*n)
            }
            Message::Ack(n) => {
                v.push(K_ACK);
                v.push(*n)
            }
            Message::PingReq { target, probe_number } => {
                v.push(K_PINGREQ);
                self.put_id(&mut v, target);
                v.push(*probe_number)
            }
            Message::IndirectPing { origin, probe_number } => {
                v.push(K_IPING);
                self.put_id(&mut v, origin);
                v.push(*probe_number)
            }
            Message::IndirectAck { target, probe_number } => {
                v.push(K_IACK);
                self.put_id(&mut v, target);
                v.push(*probe_number)
            }
            Message::ForwardedAck { origin, probe_number } => {
                v.push(K_FACK);
                self.put_id(&mut v, origin);
                v.push(*probe_number)
            }
            Message::Announce => v.push(K_ANNOUNCE),
            Message::Feed => v.push(K_FEED),
            Message::Gossip => v.push(K_GOSSIP),
            Message::Broadcast => v.push(K_BROADCAST),
            Message::TurnUndead => v.push(K_TURNUNDEAD),
        }
        v
    }
    pub fn member_bytes(&self, m: &Member<Id>) -> Vec<u8> {
        let mut v = Vec::with_capacity(8);
        let st = match m.state() {
            State::Alive => 0u8,
            State::Suspect => 1,
            State::Down => 2,
        };
        if self.packed {
            let i = m.id();
            if i.addr < 15 && i.gen < 16 {
                v.push((i.addr << 4) | i.gen);
            } else {
                v.push(0xFF);
                v.push(i.addr);
                v.push(i.gen);
            }
            if m.incarnation() < 63 {
                v.push(((m.incarnation() as u8) << 2) | st);
            } else {
                v.push(0xFC | st);
                v.put_u16(m.incarnation());
            }
            return v;
        }
        self.put_id(&mut v, m.id());
        v.put_u16(m.incarnation());
        v.push(match m.state() {
            State::Alive => 0,
            State::Suspect => 1,
            State::Down => 2,
        });
        v
    }
    pub fn parse_header(&self, mut b: impl Buf) -> Result<Header<Id>, CodecErr> {
        let src = self.get_id(&mut b)?;
        if b.remaining() < 2 {
            return Err(CodecErr("short incarnation"));
        }
        let src_incarnation = b.get_u16();
        let dst = self.get_id(&mut b)?;
        if b.remaining() < 1 {
            return Err(CodecErr("short kind"));
        }
        let kind = b.get_u8();
        let message = match kind {
            K_PING | K_ACK => {
                if b.remaining() < 1 {
                    return Err(CodecErr("short probe number"));
                }
                let n = b.get_u8();
                if kind == K_PING {
                    Message::Ping(n)
                } else {
                    Message::Ack(n)
                }
            }
            K_PINGREQ | K_IPING | K_IACK | K_FACK => {
                let who = self.get_id(&mut b)?;
                if b.remaining() < 1 {
                    return Err(CodecErr("short probe number"));
                }
                let n = b.get_u8();
                match kind {
                    K_PINGREQ => Message::PingReq { target: who, probe_number: n },
                    K_IPING => Message::IndirectPing { origin: who, probe_number: n },
                    K_IACK => Message::IndirectAck { target: who, probe_number: n },
                    _ => Message::ForwardedAck { origin: who, probe_number: n },
                }
            }
            K_ANNOUNCE => Message::Announce,
            K_FEED => Message::Feed,
            K_GOSSIP => Message::Gossip,
            K_BROADCAST => Message::Broadcast,
            K_TURNUNDEAD => Message::TurnUndead,
            _ => return Err(CodecErr("bad kind")),
        };
        Ok(Header { src, src_incarnation, dst, message })
    }
    pub fn parse_member(&self, mut b: impl Buf) -> Result<Member<Id>, CodecErr> {
        if self.packed {
            if b.remaining() < 1 {
                return Err(CodecErr("short id"));
            }
            let b0 = b.get_u8();
            let (addr, gen) = if b0 == 0xFF {
                if b.remaining() < 2 {
                    return Err(CodecErr("short id"));
                }
                (b.get_u8(), b.get_u8())
            } else {
                (b0 >> 4, b0 & 0x0F)
            };
            if b.remaining() < 1 {
                return Err(CodecErr("short member"));
            }
            let b1 = b.get_u8();
            let st = match b1 & 3 {
                0 => State::Alive,
                1 => State::Suspect,
                2 => State::Down,
                _ => return Err(CodecErr("bad state")),
            };
            let inc = if b1 >> 2 == 63 {
                if b.remaining() < 2 {
                    return Err(CodecErr("short member"));
                }
                b.get_u16()
            } else {
                u16::from(b1 >> 2)
            };
            return Ok(Member::new(Id { addr, gen, pol: Renew::None }, inc, st));
        }
        let i = self.get_id(&mut b)?;
        if b.remaining() < 3 {
            return Err(CodecErr("short member"));
        }
        let inc = b.get_u16();
        let st = match b.get_u8() {
            0 => State::Alive,
            1 => State::Suspect,
            2 => State::Down,
            _ => return Err(CodecErr("bad state")),
        };
        Ok(Member::new(i, inc, st))
    }
}

impl Codec<Id> for FixCodec {
    type Error = CodecErr;
    fn encode_header(&mut self, h: &Header<Id>, mut buf: impl BufMut) -> Result<(), CodecErr> {
        let v = self.header_bytes(h);
        // Like the serde-based codecs: write as it goes and report "buffer
        // full" afterwards, so a failed header leaves partial bytes behind
        let room = buf.remaining_mut();
        if room < v.len() {
            buf.put_slice(&v[..room]);
            return Err(CodecErr("no space for header"));
        }
        buf.put_slice(&v);
        Ok(())
    }
    fn decode_header(&mut self, buf: impl Buf) -> Result<Header<Id>, CodecErr> {
        self.parse_header(buf)
    }
    fn encode_member(&mut self, m: &Member<Id>, mut buf: impl BufMut) -> Result<(), CodecErr> {
        if self.fail_down && m.state() == State::Down {
            return Err(CodecErr("injected: cannot encode a Down member"));
        }
        let v = self.member_bytes(m);
        // Like serde-style codecs, write as much as fits before failing, so
        // that Foca's "truncate back to the last valid position" path is
        // exercised.
        let room = buf.remaining_mut();
        if room < v.len() {
            buf.put_slice(&v[..room]);
            return Err(CodecErr("no space for member"));
        }
        buf.put_slice(&v);
        Ok(())
    }
    fn decode_member(&mut self, buf: impl Buf) -> Result<Member<Id>, CodecErr> {
        self.parse_member(buf)
    }
}

/// One observable effect of a call, in the order the runtime saw it.
#[derive(Clone, Debug, PartialEq, Eq)]
pub enum Effect {
    Send { to: Id, data: Vec<u8> },
    Timer { after: Duration, timer: Timer<Id> },
    Note(OwnedNotification<Id>),
}

impl Hash for Effect {
    fn hash<H: Hasher>(&self, h: &mut H) {
        match self {
            Effect::Send { to, data } => {
                0u8.hash(h);
                to.hash(h);
                data.hash(h);
            }
            Effect::Timer { after, timer } => {
                1u8.hash(h);
                after.hash(h);
                TimerKey::from(timer).hash(h);
            }
            Effect::Note(n) => {
                2u8.hash(h);
                hash_note(n, h);
            }
        }
    }
}

pub fn hash_note<H: Hasher>(n: &OwnedNotification<Id>, h: &mut H) {
    match n {
        OwnedNotification::MemberUp(i) => (0u8, i).hash(h),
        OwnedNotification::MemberDown(i) => (1u8, i).hash(h),
        OwnedNotification::Rename(a, b) => (2u8, a, b).hash(h),
        OwnedNotification::Active => 3u8.hash(h),
        OwnedNotification::Idle => 4u8.hash(h),
        OwnedNotification::Defunct => 5u8.hash(h),
        OwnedNotification::Rejoin(i) => (6u8, i).hash(h),
    }
}

/// Hashable/orderable mirror of `foca::Timer<Id>`.
#[derive(Clone, Copy, Debug, PartialEq, Eq, Hash, PartialOrd, Ord, serde::Serialize, serde::Deserialize)]
pub enum TimerKey {
    SendIndirectProbe { probed: Id, token: u8 },
    ProbeRandomMember(u8),
    ChangeSuspectToDown { member: Id, inc: u16, token: u8 },
    PeriodicAnnounce(u8),
    PeriodicGossip(u8),
    RemoveDown(Id),
    PeriodicAnnounceDown(u8),
}

impl From<&Timer<Id>> for TimerKey {
    fn from(t: &Timer<Id>) -> Self {
        match t {
            Timer::ProbeRandomMember(k) => TimerKey::ProbeRandomMember(*k),
            Timer::SendIndirectProbe { probed_id, token } => {
                TimerKey::SendIndirectProbe { probed: *probed_id, token: *token }
            }
            Timer::ChangeSuspectToDown { member_id, incarnation, token } => {
                TimerKey::ChangeSuspectToDown { member: *member_id, inc: *incarnation, token: *token }
            }
            Timer::PeriodicAnnounce(k) => TimerKey::PeriodicAnnounce(*k),
            Timer::PeriodicAnnounceDown(k) => TimerKey::PeriodicAnnounceDown(*k),
            Timer::PeriodicGossip(k) => TimerKey::PeriodicGossip(*k),
            Timer::RemoveDown(i) => TimerKey::RemoveDown(*i),
        }
    }
}

impl TimerKey {
    pub fn to_timer(&self) -> Timer<Id> {
        match *self {
            TimerKey::ProbeRandomMember(k) => Timer::ProbeRandomMember(k),
            TimerKey::SendIndirectProbe { probed, token } => {
                Timer::SendIndirectProbe { probed_id: probed, token }
            }
            TimerKey::ChangeSuspectToDown { member, inc, token } => {
                Timer::ChangeSuspectToDown { member_id: member, incarnation: inc, token }
            }
            TimerKey::PeriodicAnnounce(k) => Timer::PeriodicAnnounce(k),
            TimerKey::PeriodicAnnounceDown(k) => Timer::PeriodicAnnounceDown(k),
            TimerKey::PeriodicGossip(k) => Timer::PeriodicGossip(k),
            TimerKey::RemoveDown(i) => Timer::RemoveDown(i),
        }
    }
    /// The epoch token carried, if the variant has one.
    pub fn token(&self) -> Option<u8> {
        match *self {
            TimerKey::ProbeRandomMember(k)
            | TimerKey::PeriodicAnnounce(k)
            | TimerKey::PeriodicAnnounceDown(k)
            | TimerKey::PeriodicGossip(k) => Some(k),
            TimerKey::SendIndirectProbe { token, .. } | TimerKey::ChangeSuspectToDown { token, .. } => {
                Some(token)
            }
            TimerKey::RemoveDown(_) => None,
        }
    }
    pub fn show(&self) -> String {
        match self {
            TimerKey::SendIndirectProbe { probed, token } => format!("SendIndirectProbe({},t{})", probed.show(), token),
            TimerKey::ProbeRandomMember(k) => format!("ProbeRandomMember(t{k})"),
            TimerKey::ChangeSuspectToDown { member, inc, token } => {
                format!("ChangeSuspectToDown({},i{},t{})", member.show(), inc, token)
            }
            TimerKey::PeriodicAnnounce(k) => format!("PeriodicAnnounce(t{k})"),
            TimerKey::PeriodicGossip(k) => format!("PeriodicGossip(t{k})"),
            TimerKey::RemoveDown(i) => format!("RemoveDown({})", i.show()),
            TimerKey::PeriodicAnnounceDown(k) => format!("PeriodicAnnounceDown(t{k})"),
        }
    }
}

/// A `Runtime` that records every callback in one ordered log.
#[derive(Default, Debug)]
pub struct RecRuntime {
    pub log: Vec<Effect>,
}

impl Runtime<Id> for RecRuntime {
    fn notify(&mut self, notification: Notification<'_, Id>) {
        self.log.push(Effect::Note(notification.to_owned()));
    }
    fn send_to(&mut self, to: Id, data: &[u8]) {
        self.log.push(Effect::Send { to, data: data.to_vec() });
    }
    fn submit_after(&mut self, event: Timer<Id>, after: Duration) {
        self.log.push(Effect::Timer { after, timer: event });
    }
}

/// Key of a custom broadcast item `[key, version, pad...]`.
#[derive(Clone, Copy, Debug, PartialEq, Eq, Hash)]
pub struct BKey {
    pub key: u8,
    pub version: u8,
    pub mode: InvMode,
}

/// Which `Invalidates` relation the handler's keys implement.
#[derive(Clone, Copy, Debug, PartialEq, Eq, Hash)]
pub enum InvMode {
    /// same key and version >= other's
    NewerVersion,
    /// same key, whatever the version
    EqualKey,
    /// nothing ever invalidates anything
    Never,
    /// everything invalidates everything (backlog holds at most one item)
    Always,
    /// a strictly newer version invalidates EVERY older item, whatever its
    /// key (one-to-many); items of the same version coexist
    Generation,
}

impl Invalidates for BKey {
    fn invalidates(&self, other: &Self) -> bool {
        match self.mode {
            InvMode::NewerVersion => self.key == other.key && self.version >= other.version,
            InvMode::EqualKey => self.key == other.key,
            InvMode::Never => false,
            InvMode::Always => true,
            InvMode::Generation => self.version > other.version,
        }
    }
}

#[derive(Debug, Clone, Copy)]
pub struct HandlerErr;
impl std::fmt::Display for HandlerErr {
    fn fmt(&self, f: &mut std::fmt::Formatter<'_>) -> std::fmt::Result {
        f.write_str("handler rejected item")
    }
}
impl std::error::Error for HandlerErr {}

/// Table-driven broadcast handler. Items are `[key, version, pad...]`.
///
/// * accepts an item iff `accept_all`, or its version is greater than the
///   greatest version seen for that key (keys 0..4);
/// * an item whose first byte is 0xFF is an error;
/// * `deny_mask` bit `addr` set => `should_add_broadcast_data` is false for
///   identities at that address;
/// * `calls` records every `receive_item` (data, sender).
#[derive(Clone, Debug, PartialEq, Eq, Hash)]
pub struct TableHandler {
    pub mode: InvMode,
    pub accept_all: bool,
    pub deny_mask: u8,
    pub seen: [Option<u8>; 4],
    pub calls: Vec<(Vec<u8>, Option<Id>)>,
    pub record_calls: bool,
    /// a handler that treats items as opaque blobs: even an empty one gets a
    /// key (Foca itself must never hand it one)
    pub accept_empty: bool,
}

impl TableHandler {
    pub fn new(mode: InvMode) -> Self {
        Self { mode, accept_all: false, deny_mask: 0, seen: [None; 4], calls: Vec::new(), record_calls: false, accept_empty: false }
    }
    pub fn should_add(&self, member: &Id) -> bool {
        member.addr >= 8 || self.deny_mask & (1 << member.addr) == 0
    }
    /// Harness-side prediction of `receive_item` without side effects.
    pub fn would_accept(&self, data: &[u8]) -> Result<Option<BKey>, HandlerErr> {
        if data.is_empty() && self.accept_empty {
            return Ok(Some(BKey { key: 3, version: 0, mode: self.mode }));
        }
        if data.is_empty() || data[0] == 0xFF {
            return Err(HandlerErr);
        }
        let key = data[0] & 3;
        let version = if data.len() > 1 { data[1] } else { 0 };
        let k = BKey { key, version, mode: self.mode };
        if self.accept_all {
            return Ok(Some(k));
        }
        match self.seen[key as usize] {
            Some(v) if v >= version => Ok(None),
            _ => Ok(Some(k)),
        }
    }
}

impl BroadcastHandler<Id> for TableHandler {
    type Key = BKey;
    type Error = HandlerErr;
    fn receive_item(&mut self, data: &[u8], sender: Option<&Id>) -> Result<Option<BKey>, HandlerErr> {
        if self.record_calls {
            self.calls.push((data.to_vec(), sender.copied()));
        }
        let r = self.would_accept(data)?;
        if let Some(k) = r {
            let slot = &mut self.seen[k.key as usize];
            if slot.map_or(true, |v| k.version > v) {
                *slot = Some(k.version);
            }
        }
        Ok(r)
    }
    fn should_add_broadcast_data(&self, member: &Id) -> bool {
        member.addr >= 8 || self.deny_mask & (1 << member.addr) == 0
    }
}

pub fn state_char(s: State) -> char {
    match s {
        State::Alive => 'A',
        State::Suspect => 'S',
        State::Down => 'D',
    }
}

pub fn show_member(m: &Member<Id>) -> String {
    format!("{}:{}{}", m.id().show(), state_char(m.state()), m.incarnation())
}

pub fn show_note(n: &OwnedNotification<Id>) -> String {
    match n {
        OwnedNotification::MemberUp(i) => format!("MemberUp({})", i.show()),
        OwnedNotification::MemberDown(i) => format!("MemberDown({})", i.show()),
        OwnedNotification::Rename(a, b) => format!("Rename({}->{})", a.show(), b.show()),
        OwnedNotification::Active => "Active".into(),
        OwnedNotification::Idle => "Idle".into(),
        OwnedNotification::Defunct => "Defunct".into(),
        OwnedNotification::Rejoin(i) => format!("Rejoin({})", i.show()),
    }
}
