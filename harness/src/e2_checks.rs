//! Cluster-level checks (engine E2): C02 fault-free discovery / no false
//! suspicion, C03 completeness under crash / leave, C04 single lost
//! datagram, C05 healed partition.
use crate::core::*;
use crate::doubles::*;
use crate::e2::*;
use crate::grammar;
use crate::report::Report;
use crate::rng;
use foca::{Message, OwnedNotification as N, State};
use rayon::prelude::*;
use serde_json::json;
use std::collections::BTreeMap;

pub const PERIOD: u64 = 100;
pub const RTT: u64 = 40;
pub const SUSPECT: u64 = 300;

fn opts(n: usize, lat: &[u64]) -> SimOpts {
    SimOpts { lat_menu: lat.to_vec(), words: rng::menu(n + 1, n.min(5)), record_sends: false, record_received: false }
}

fn base_cfg() -> Cfg {
    Cfg { probe_period: PERIOD, probe_rtt: RTT, suspect_to_down: SUSPECT, remove_down: 1_000_000, ..Cfg::default() }
}

fn node_id(a: u8, renew: bool) -> Id {
    id(a, 0).with(if renew { Renew::Next } else { Renew::None })
}

/// Bring up a cluster by real announces with staggered start phases, run it
/// (default schedule, nothing recorded) until everybody lists everybody and
/// a few more rounds have passed. Returns the time formation ended.
pub fn form_cluster(sim: &mut Sim, n: usize, cfg: &Cfg, renew: bool, phase: u64) -> Result<u64, String> {
    sim.chooser.recording = false;
    sim.spawn(0, node_id(0, renew), cfg);
    if phase == 0 && n >= 2 {
        // everybody boots in the same tick and announces to its ring
        // neighbour: all members become Active in the same tick, so their
        // periodic timers are exactly aligned
        for k in 1..n as u8 {
            sim.spawn(k, node_id(k, renew), cfg);
        }
        for k in 0..n as u8 {
            sim.call(k, &Ev::Announce(id((k + 1) % n as u8, 0)));
        }
    } else {
        for k in 1..n as u8 {
            let at = k as u64 * phase;
            sim.schedule(at, Evt::Action { node: k, code: 0 });
        }
    }
    let deadline = (6 * n as u64 + 10) * PERIOD;
    let mut meshed_at: Option<u64> = None;
    let all: Vec<u8> = (0..n as u8).collect();
    loop {
        let Some((t, e)) = sim.step(deadline) else { break };
        if let Evt::Action { node, .. } = e {
            if sim.nodes[node as usize].is_none() {
                sim.spawn(node, node_id(node, renew), cfg);
            }
            sim.call(node, &Ev::Announce(id(0, 0)));
        }
        if meshed_at.is_none() && sim.live().len() == n && sim.all_alive(&all) {
            meshed_at = Some(t);
        }
        if let Some(m) = meshed_at {
            // let dissemination backlogs drain: n+2 further periods
            if t >= m + (n as u64 + 2) * PERIOD {
                break;
            }
        }
        if sim.panicked.is_some() {
            return Err(sim.panicked.clone().unwrap());
        }
    }
    if meshed_at.is_none() || !sim.all_alive(&all) {
        return Err(format!("formation of a {n}-member cluster did not converge by t={}", sim.now));
    }
    for l in sim.logs.iter_mut() {
        *l = NodeLog::default();
    }
    Ok(sim.now)
}

fn kind_of(codec: &FixCodec, d: &[u8]) -> &'static str {
    match codec.parse_header(d) {
        Ok(h) => crate::mon::kind_name(&h.message),
        Err(_) => "?",
    }
}

/// Record "no error, no panic" violations common to all cluster checks.
fn common_violations(sim: &Sim, res: &mut RunResult, tag: &str) {
    if let Some(p) = &sim.panicked {
        res.violations.push((format!("{tag}:panic"), p.clone()));
    }
}

// ======================================================================
// C02
// ======================================================================

#[derive(Clone, Debug)]
pub struct C02Cell {
    pub n: usize,
    /// 0 sequential-same-seed, 1 sequential-distinct-seeds, 2 concurrent-same-seed, 3 concurrent-distinct-seeds
    pub pattern: u8,
    pub mt: u8,
    pub fanout: usize,
    pub periodic: bool,
    pub packet: usize,
    /// discovery is only asserted when the packet can feed the whole cluster
    pub assert_discovery: bool,
    pub lat: Vec<u64>,
    /// generation the joiners write into the identity of the member they
    /// announce to (every member really runs at generation 0): 0 = they know
    /// the exact identity, 3 = they only know the address and made the rest up
    pub seed_gen: u8,
    /// a member publishes a custom broadcast item after the cluster settled
    pub custom_item: bool,
    /// the cluster speaks the bit-packing wire format (2-byte members)
    pub packed: bool,
}

pub fn pattern_name(p: u8) -> &'static str {
    ["sequential-same-seed", "sequential-distinct-seeds", "concurrent-same-seed", "concurrent-distinct-seeds"][p as usize]
}

impl C02Cell {
    pub fn label(&self) -> String {
        format!("n={} {} mt={} fanout={} periodic={} packet={}{}", self.n, pattern_name(self.pattern), self.mt, self.fanout, self.periodic, self.packet, if self.seed_gen != 0 { " announce-by-address(made-up generation)" } else if self.custom_item { " custom-item-after-settling" } else if self.packed { " packed-wire-format(2-byte members)" } else { "" })
    }
    /// (time, joiner, seed)
    fn plan(&self) -> Vec<(u64, u8, u8)> {
        let n = self.n as u8;
        let gap = 2 * self.n as u64 * PERIOD;
        match self.pattern {
            0 => (1..n).map(|k| (k as u64 * gap, k, 0)).collect(),
            1 => (1..n).map(|k| (k as u64 * gap, k, k - 1)).collect(),
            2 => (1..n).map(|k| (k as u64, k, 0)).collect(),
            _ => {
                // a formed base of ceil(n/2) members, then the rest join at
                // once, each through a different base member
                let base = (self.n + 1) / 2;
                let mut v: Vec<(u64, u8, u8)> = (1..base as u8).map(|k| (k as u64 * gap, k, k - 1)).collect();
                let t0 = base as u64 * gap;
                for (i, k) in (base as u8..n).enumerate() {
                    v.push((t0 + i as u64, k, (i % base) as u8));
                }
                v
            }
        }
    }
}

pub fn run_c02(cell: &C02Cell, devs: &BTreeMap<usize, usize>) -> RunResult {
    let n = cell.n;
    let mut sim = Sim::new(n, opts(n, &cell.lat));
    sim.codec = FixCodec { packed: cell.packed, ..FixCodec::default() };
    sim.chooser.deviations = devs.clone();
    sim.chooser.recording = true;
    let cfg = Cfg {
        max_tx: cell.mt,
        fanout: cell.fanout,
        max_packet: cell.packet,
        gossip: cell.periodic.then_some((200, 1)),
        announce: cell.periodic.then_some((500, 1)),
        ..base_cfg()
    };
    sim.spawn(0, node_id(0, false), &cfg);
    let plan = cell.plan();
    for (t, k, _) in &plan {
        sim.schedule(*t, Evt::Action { node: *k, code: 0 });
    }
    let last_join = plan.iter().map(|p| p.0).max().unwrap_or(0);
    let mut horizon = last_join + (3 * n as u64 + 4) * PERIOD;
    if cell.custom_item {
        // once the cluster has settled (update backlogs drained) a member
        // publishes a custom broadcast item; the run goes on for n+3 periods
        sim.schedule(horizon, Evt::Action { node: 0, code: 1 });
        horizon += (n as u64 + 3) * PERIOD;
    }
    let all: Vec<u8> = (0..n as u8).collect();
    let mut res = RunResult::default();
    let mut discovered_at: Option<u64> = None;
    while let Some((t, e)) = sim.step(horizon) {
        let node = e.node();
        if let Evt::Action { node, code: 1 } = e {
            sim.call(node, &Ev::AddBroadcast(vec![1, 1, 9]));
        } else if let Evt::Action { node, .. } = e {
            let seed = plan.iter().find(|p| p.1 == node).map(|p| p.2).unwrap_or(0);
            sim.spawn(node, node_id(node, false), &cfg);
            sim.call(node, &Ev::Announce(id(seed, cell.seed_gen)));
        }
        // zero false suspicion: the node that just acted holds no live member
        // as Suspect or Down
        if let Some(v) = sim.view(node) {
            if let Some(m) = v.members.iter().find(|m| m.state() != State::Alive) {
                res.violations.push(("c02:false-suspicion".into(), format!("t={t} node {} records live member {} [{}]", node, show_member(m), cell.label())));
                break;
            }
        }
        if discovered_at.is_none() && t >= last_join && sim.live().len() == n && sim.fully_meshed(&all) {
            discovered_at = Some(t);
        }
        if sim.panicked.is_some() {
            break;
        }
    }
    common_violations(&sim, &mut res, "c02");
    for (a, l) in sim.logs.iter().enumerate() {
        if let Some((t, e)) = l.errors.first() {
            res.violations.push(("c02:call-returned-error".into(), format!("t={t} node {a}: {e} [{}]", cell.label())));
        }
        if let Some((t, nn)) = l.notes.iter().find(|(_, x)| matches!(x, N::MemberDown(_) | N::Idle | N::Defunct)) {
            res.violations.push(("c02:false-notification".into(), format!("t={t} node {a} notified {} in a fault-free run [{}]", show_note(nn), cell.label())));
        }
    }
    if cell.assert_discovery && res.violations.is_empty() {
        let bound = (2 * n as u64 + 2) * PERIOD;
        let ann = if cell.periodic { "announce-on" } else { "announce-off" };
        match discovered_at {
            Some(t) if t - last_join <= bound => {
                res.metrics.insert("discovery_periods_x100".into(), (t - last_join) * 100 / PERIOD);
            }
            Some(t) => res.violations.push((format!("discovery-late|{}|{}", pattern_name(cell.pattern), ann), format!("full discovery took {} ticks after the last join (bound {}) [{}]", t - last_join, bound, cell.label()))),
            None => {
                let missing: Vec<String> = all.iter().filter_map(|a| sim.view(*a).map(|v| format!("{}:{{{}}}", a, v.active.iter().map(|i| i.show()).collect::<Vec<_>>().join(",")))).collect();
                res.violations.push((format!("discovery|{}|{}", pattern_name(cell.pattern), ann), format!("at the horizon (t={horizon}) not every instance lists every other: {} [{}]", missing.join(" "), cell.label())));
            }
        }
    }
    res.events = sim.events_processed;
    res.points = sim.chooser.points;
    res
}

/// Discovery presupposes that a packet just large enough to feed the whole
/// cluster does feed it: for every cluster size up to 24, the Feed answering
/// a newcomer lists every other active member whenever they fit, and (fixed
/// size members) omits a member only when it does not fit.
fn feed_completeness(rep: &mut Report) -> u64 {
    let mut evals = 0u64;
    for var in [false, true] {
        let codec = FixCodec { var, ..FixCodec::default() };
        for n in 2..=24usize {
            let members: Vec<Id> = (1..n as u8).map(|a| id(a, if var { a % 3 } else { 0 })).collect();
            let newcomer = id(n as u8, 0);
            let seed_id = id(0, 0);
            let hdr = codec.header_bytes(&foca::Header { src: seed_id, src_incarnation: 0, dst: newcomer, message: Message::Feed }).len();
            let body: usize = members.iter().map(|m| codec.member_bytes(&foca::Member::new(*m, 0, State::Alive)).len()).sum();
            let exact = hdr + 2 + body;
            let mut sizes: Vec<usize> = vec![exact, exact + 1, exact + 4, 1400];
            if !var {
                sizes.extend((hdr + 3..exact).step_by(3));
            }
            for packet in sizes {
                for word in [0u32, 0x5555_5555, 0xAAAA_AAAA, 0xFFFF_FFF0] {
                    let cfg = Cfg { max_packet: packet, ..base_cfg() };
                    let mut f = new_foca(seed_id, &cfg, codec, TableHandler::new(InvMode::NewerVersion));
                    f.verif_rng_mut().default = word;
                    run_event(&mut f, &Ev::Apply(members.iter().map(|m| foca::Member::new(*m, 0, State::Alive)).collect(), false), &[]);
                    let ann = dgram(&codec, newcomer, 0, seed_id, Message::Announce, None, &[]);
                    if ann.len() > packet {
                        continue;
                    }
                    let o = run_event(&mut f, &Ev::Data(ann), &[]);
                    evals += 1;
                    let Some((_, d)) = o.sends().find(|(to, _)| **to == newcomer) else {
                        rep.violate("c02:no-feed", format!("an Announce was not answered with a Feed (n={n}, packet={packet})"), json!({"engine": "e3-feed"}));
                        return evals;
                    };
                    let Ok(p) = grammar::parse(&codec, d) else { continue };
                    let listed: Vec<Id> = p.updates.iter().flatten().map(|u| *u.id()).collect();
                    let left = packet - d.len();
                    let omitted: Vec<&Id> = members.iter().filter(|m| !listed.contains(m)).collect();
                    let fits_all = packet >= exact;
                    let bad = if fits_all {
                        !omitted.is_empty()
                    } else {
                        !var && omitted.iter().any(|m| codec.member_bytes(&foca::Member::new(**m, 0, State::Alive)).len() <= left && p.updates.is_some())
                    };
                    if bad {
                        rep.violate(
                            "c02:feed-omits-members-that-fit",
                            format!("cluster of {n}: with max_packet_size={packet} (everything fits in {exact}) the Feed to the newcomer lists {} of {} members and leaves {left} bytes unused (variable-length ids: {var})", listed.len(), members.len()),
                            json!({"engine": "e3-feed", "n": n, "packet": packet}),
                        );
                        return evals;
                    }
                }
            }
        }
    }
    evals
}

pub fn c02(tier: &str) -> Report {
    let th = tier == "thorough";
    crate::e2::set_budget(if tier == "thorough" { 1500.0 } else { 240.0 });
    let mut rep = Report::new("C02", tier, "model_checking");
    let feed_evals = feed_completeness(&mut rep);
    rep.set("feed_completeness_cases(cluster sizes 2..24 x packet sizes x rng)", json!(feed_evals));
    // exhaustive mode: tiny worlds explored to FIXPOINT (all latencies, all
    // tie-breaks, all RNG answers): zero false suspicion for ALL time
    {
        let mut rows = Vec::new();
        let mut worlds: Vec<(usize, Vec<u64>, u8)> = vec![(2, vec![0], 3), (2, vec![57], 1)];
        if th {
            worlds.extend([(3, vec![0, 0], 3), (3, vec![0, 230], 3), (2, vec![0], 10)]);
        }
        for (n, joins, mt) in worlds {
            // each world has its own wall budget (a cut world is reported as capped)
            crate::e2::set_budget(if th { 300.0 } else { 120.0 });
            let cfg = Cfg { max_tx: mt, fanout: 3, ..base_cfg() };
            let xo = crate::e2x::XOpts { lat_menu: vec![1, 9], words: rng::menu(n + 1, n), cfg: cfg.clone(), max_states: if th { 6_000_000 } else { 400_000 } };
            let (st, bad) = crate::e2x::explore_fixpoint(crate::e2x::joining_world(n, &cfg, &joins), &xo);
            rows.push(json!({"members": n, "join_instants": joins, "max_transmissions": mt, "global_states": st.states, "transitions": st.transitions, "bfs_levels": st.levels, "fixpoint_reached": st.fixpoint, "state_cap_hit": st.capped}));
            rep.states += st.states;
            rep.transitions += st.transitions;
            if let Some(e) = bad {
                rep.violate("c02:false-suspicion-exhaustive", format!("{e} [exhaustive exploration, n={n}, joins at {joins:?}, latencies {{1,9}}]"), json!({"engine": "e2x", "n": n}));
            }
            if !st.fixpoint && !st.capped && rep.violations.is_empty() {
                rep.machinery("exhaustive exploration ended without fixpoint, cap or violation".into());
            }
        }
        rep.set("exhaustive_fixpoint_worlds", json!(rows));
    }
    crate::e2::set_budget(if th { 1200.0 } else { 240.0 });
    let mut cells: Vec<(C02Cell, usize)> = Vec::new();
    let ns: Vec<usize> = if th { vec![2, 3, 4, 5] } else { vec![2, 3, 4] };
    for &n in &ns {
        for pattern in 0..4u8 {
            if n == 2 && pattern != 0 {
                continue;
            }
            if pattern == 3 && n < 4 {
                continue;
            }
            for &mt in if th { &[1u8, 2, 3, 10][..] } else { &[1u8, 3, 10][..] } {
                for &fanout in &[1usize, 3] {
                    for &periodic in &[false, true] {
                        if !th && (fanout == 1) != periodic {
                            // quick: pair (fanout 1, periodic) and (fanout 3, not periodic)
                            continue;
                        }
                        let fits = 9 + 5 * n;
                        for &(packet, assert_discovery) in &[(fits, true), (1400, true), (10usize, false), (15usize, false)] {
                            if !th && packet == 15 {
                                continue;
                            }
                            let d = if th {
                                if n == 2 {
                                    3
                                } else if n <= 4 {
                                    2
                                } else {
                                    1
                                }
                            } else if n == 2 || (n == 3 && mt == 1) {
                                2
                            } else {
                                1
                            };
                            cells.push((C02Cell { n, pattern, mt, fanout, periodic, packet, assert_discovery, lat: vec![1, 9], seed_gen: 0, custom_item: false, packed: false }, d));
                            if packet == 1400 {
                                cells.push((C02Cell { n, pattern, mt, fanout, periodic, packet, assert_discovery, lat: vec![1, 9], seed_gen: 3, custom_item: false, packed: false }, d.min(1)));
                                cells.push((C02Cell { n, pattern, mt, fanout, periodic, packet, assert_discovery, lat: vec![1, 9], seed_gen: 0, custom_item: true, packed: false }, d.min(1)));
                                cells.push((C02Cell { n, pattern, mt, fanout, periodic, packet, assert_discovery, lat: vec![1, 9], seed_gen: 0, custom_item: false, packed: true }, d.min(1)));
                            }
                        }
                    }
                }
            }
        }
    }
    // larger clusters on (nearly) the default schedule only
    for &n in if th { &[6usize, 8, 10][..] } else { &[8usize][..] } {
        for pattern in 0..3u8 {
            for &mt in &[1u8, 3, 10] {
                for &(packet, assert_discovery) in &[(9 + 5 * n, true), (9 + 5 * (n - 2), true), (1400, true)] {
                    cells.push((C02Cell { n, pattern, mt, fanout: 3, periodic: false, packet, assert_discovery, lat: vec![1, 9], seed_gen: 0, custom_item: false, packed: false }, usize::from(th && n <= 8)));
                }
            }
        }
    }
    let n_cells = cells.len();
    let mut agg = DevStats::default();
    let mut cell_rows = Vec::new();
    for (cell, d) in &cells {
        let f = |devs: &BTreeMap<usize, usize>| run_c02(cell, devs);
        let (st, vs) = explore_deviations(&f, *d, if th { 3_000_000 } else { 400_000 });
        agg.executions += st.executions;
        agg.events += st.events;
        agg.max_points = agg.max_points.max(st.max_points);
        for (k, v) in &st.metrics {
            let e = agg.metrics.entry(k.clone()).or_insert(0);
            *e = (*e).max(*v);
        }
        if cell_rows.len() < 400 {
            cell_rows.push(json!({"cell": cell.label(), "deviation_bound_completed": st.completed_bound, "executions": st.executions, "choice_points": st.max_points, "cap": st.capped, "violating_executions": vs.len()}));
        }
        let mut seen = std::collections::BTreeSet::new();
        for v in vs {
            if seen.insert(v.signature.clone()) {
                rep.violate(&v.signature, format!("{} [deviations from the default schedule: {:?}]", v.what, v.deviations), json!({"engine": "e2", "property": "C02", "cell": cell.label(), "deviations": v.deviations}));
            }
        }
    }
    rep.states += agg.executions;
    rep.transitions += agg.events;
    rep.evaluations = agg.executions + feed_evals;
    rep.distinct_nontrivial = rep.states;
    rep.set("cells", json!(n_cells));
    rep.set("cell_results", json!(cell_rows));
    rep.set("max_choice_points_per_run", json!(agg.max_points));
    rep.set("worst_discovery_time_in_probe_periods_x100", json!(agg.metrics.get("discovery_periods_x100")));
    {
        let c = &cells[cells.len() / 2].0;
        let tr = trace_one(30, || {
            run_c02(c, &BTreeMap::new());
        });
        rep.sample(json!({"cell": c.label(), "schedule": "default (minimum latency, FIFO ties, RNG answer 0)", "first_events": tr}));
    }
    rep.rule = "per cell (cluster size x join pattern x max_transmissions x fan-out x periodic tasks x packet size): the default schedule plus EVERY schedule that departs from it in at most D choice points (latency of each datagram in {1,9} ticks, order of simultaneous events at a node, every RNG draw); states = executions, each run to the horizon on the real code".into();
    rep.assume("probe_period=100, probe_rtt=40, suspect_to_down_after=300 ticks; latencies 1 or 9 ticks (< probe_rtt/4); timers fire exactly on time");
    rep.assume("a joiner announces once; discovery bound asserted: (2n+2) probe periods after the last join");
    rep
}

// ======================================================================
// C03
// ======================================================================

#[derive(Clone, Debug)]
pub struct C03Cell {
    pub n: usize,
    pub failing: Vec<u8>,
    pub leave: bool,
    pub renew: bool,
    pub mt: u8,
    /// the failure happens right after this many events of the window
    pub at_event: u64,
    /// offset between the members' start instants (0 = all in one tick)
    pub phase: u64,
    /// the members that will fail refuted a suspicion earlier: their
    /// incarnation is 1 while the survivors' is 0
    pub bumped: bool,
    /// suspect_to_down_after in ticks (300 = a multiple of the probe period;
    /// 320 = the timeout falls due 20 ticks after a probe tick, inside the
    /// reply window of that round's Ping)
    pub suspect: u64,
    /// long before the failure one Ack was slow (45 ticks): a probe round
    /// that succeeded through the indirect path only
    pub prior_indirect: bool,
}

impl C03Cell {
    pub fn label(&self) -> String {
        format!("n={} failing={:?} kind={} renewable={} mt={} after-event={} phase={}{} suspect_to_down={}", self.n, self.failing, if self.leave { "leave" } else { "crash" }, self.renew, self.mt, self.at_event, self.phase, if self.bumped { " failing-members-refuted-before" } else if self.prior_indirect { " one-slow-ack-long-before" } else { "" }, self.suspect)
    }
}

pub fn run_c03(cell: &C03Cell, devs: &BTreeMap<usize, usize>) -> RunResult {
    let n = cell.n;
    let mut res = RunResult::default();
    let mut o = opts(n, &[1, 9]);
    o.record_sends = cell.leave;
    o.record_received = cell.leave;
    let mut sim = Sim::new(n, o);
    let cfg = Cfg { max_tx: cell.mt, fanout: 3, suspect_to_down: cell.suspect, ..base_cfg() };
    if let Err(e) = form_cluster(&mut sim, n, &cfg, cell.renew, cell.phase) {
        res.violations.push(("machinery:formation".into(), e));
        return res;
    }
    if cell.bumped {
        for f in &cell.failing {
            let me = *sim.nodes[*f as usize].as_ref().unwrap().identity();
            sim.call(*f, &Ev::Apply(vec![foca::Member::new(me, 0, State::Suspect)], true));
        }
        let until = sim.now + 4 * PERIOD;
        while sim.step(until).is_some() {}
    }
    if cell.prior_indirect {
        sim.delay_next_ack = Some(45);
        let until = sim.now + (2 * n as u64 + 2) * PERIOD;
        while sim.step(until).is_some() {}
    }
    sim.chooser.deviations = devs.clone();
    sim.chooser.recording = true;
    // run `at_event` events, then fail
    let mut k = 0;
    while k < cell.at_event {
        if sim.step(u64::MAX).is_none() {
            break;
        }
        k += 1;
    }
    let t_fail = sim.now;
    let survivors: Vec<u8> = (0..n as u8).filter(|a| !cell.failing.contains(a)).collect();
    // who listed whom as active at the failure instant
    let mut listed: Vec<(u8, Id)> = Vec::new();
    for s in &survivors {
        if let Some(v) = sim.view(*s) {
            for f in &cell.failing {
                if let Some(i) = v.active.iter().find(|i| i.addr == *f) {
                    listed.push((*s, *i));
                }
            }
        }
    }
    for f in &cell.failing {
        if cell.leave {
            sim.call(*f, &Ev::Leave);
        } else {
            sim.crash(*f);
        }
    }
    for l in sim.logs.iter_mut() {
        l.notes.clear();
    }
    let bound = (2 * n as u64 + 1) * PERIOD + cell.suspect;
    let horizon = t_fail + bound + 4 * PERIOD;
    let mut told_at: BTreeMap<(u8, u8), u64> = BTreeMap::new();
    while let Some((t, e)) = sim.step(horizon) {
        if let Evt::Deliver { to, from, bytes } = &e {
            if cell.leave && cell.failing.contains(from) && survivors.contains(to) {
                if let Ok(p) = grammar::parse(&sim.codec, bytes) {
                    if p.updates.iter().flatten().any(|u| u.id().addr == *from && u.state() == State::Down) {
                        told_at.entry((*to, *from)).or_insert(t);
                    }
                }
            }
        }
        if sim.panicked.is_some() {
            break;
        }
    }
    common_violations(&sim, &mut res, "c03");
    let kind = if cell.leave { "leave" } else { "crash" };
    for (s, f) in &listed {
        let down = sim.logs[*s as usize].notes.iter().find(|(_, x)| matches!(x, N::MemberDown(i) if i == f)).map(|(t, _)| *t);
        match down {
            None => res.violations.push((format!("c03:never-down:{kind}"), format!("survivor {} never notified MemberDown({}) within {} ticks of the failure at t={} [{}]", s, f.show(), horizon - t_fail, t_fail, cell.label()))),
            Some(t) if t > t_fail + bound => res.violations.push((format!("c03:late-down:{kind}"), format!("survivor {} notified MemberDown({}) {} ticks after the failure (bound {}) [{}]", s, f.show(), t - t_fail, bound, cell.label()))),
            Some(t) => {
                let e = res.metrics.entry("worst_detection_ticks".into()).or_insert(0);
                *e = (*e).max(t - t_fail);
                if let Some(told) = told_at.get(&(*s, f.addr)) {
                    if t > *told {
                        res.violations.push(("c03:told-but-not-immediately-down".into(), format!("survivor {} received the leave gossip of {} at t={} but notified MemberDown at t={} [{}]", s, f.show(), told, t, cell.label())));
                    }
                }
            }
        }
    }
    // no survivor is declared Down by anyone
    for s in &survivors {
        for (t, x) in &sim.logs[*s as usize].notes {
            if let N::MemberDown(i) = x {
                if survivors.contains(&i.addr) {
                    res.violations.push(("c03:survivor-declared-down".into(), format!("t={t} survivor {} notified MemberDown({}) although {} never failed [{}]", s, i.show(), i.show(), cell.label())));
                }
            }
            if matches!(x, N::Defunct | N::Rejoin(_)) {
                res.violations.push(("c03:survivor-told-it-is-down".into(), format!("t={t} survivor {} notified {} [{}]", s, show_note(x), cell.label())));
            }
        }
    }
    // a member that left stops answering probes (and does not come back)
    if cell.leave {
        for f in &cell.failing {
            for (t, to, d) in &sim.logs[*f as usize].sends {
                if *t <= t_fail {
                    continue;
                }
                if let Ok(h) = sim.codec.parse_header(&d[..]) {
                    if matches!(h.message, Message::Ack(_) | Message::IndirectAck { .. } | Message::Feed | Message::ForwardedAck { .. } | Message::IndirectPing { .. } | Message::Ping(_) | Message::PingReq { .. }) {
                        res.violations.push((format!("c03:leaver-still-active:{}", crate::mon::kind_name(&h.message)), format!("t={t} member {} left at t={} but sent {} to {} [{}]", f, t_fail, show_dgram(&sim.codec, d), to.show(), cell.label())));
                        break;
                    }
                }
            }
            if sim.logs[*f as usize].notes.iter().any(|(t, x)| *t > t_fail && matches!(x, N::Rejoin(_) | N::Active)) {
                res.violations.push(("c03:leaver-rejoined".into(), format!("member {} left at t={} but later notified Rejoin/Active [{}]", f, t_fail, cell.label())));
            }
        }
    }
    res.events = sim.events_processed;
    res.points = sim.chooser.points;
    res
}

fn subsets(n: usize) -> Vec<Vec<u8>> {
    let mut v = Vec::new();
    for mask in 1u32..(1 << n) - 1 {
        v.push((0..n as u8).filter(|a| mask & (1 << a) != 0).collect());
    }
    v
}

/// number of events in one full probe rotation of the default schedule
fn rotation_events(n: usize, cfg: &Cfg, renew: bool) -> u64 {
    let mut sim = Sim::new(n, opts(n, &[1, 9]));
    if form_cluster(&mut sim, n, cfg, renew, 17).is_err() {
        return 0;
    }
    let start = sim.now;
    let e0 = sim.events_processed;
    while sim.step(start + n as u64 * PERIOD).is_some() {}
    sim.events_processed - e0
}

fn fold_cells<C: Sync, F>(prop: &str, cells: &[(C, usize)], label: &(dyn Fn(&C) -> String + Sync), run: F, cap: u64, rep: &mut Report) -> DevStats
where
    F: Fn(&C, &BTreeMap<usize, usize>) -> RunResult + Sync,
{
    // cells in parallel, each cell's deviation levels in parallel too (rayon nests)
    let results: Vec<(String, DevStats, Vec<DevViolation>)> = cells
        .par_iter()
        .map(|(c, d)| {
            let f = |devs: &BTreeMap<usize, usize>| run(c, devs);
            let (st, vs) = explore_deviations(&f, *d, cap);
            (label(c), st, vs)
        })
        .collect();
    let mut agg = DevStats::default();
    let mut seen = std::collections::BTreeSet::new();
    let mut rows = Vec::new();
    let mut min_bound = usize::MAX;
    for (lab, st, vs) in results {
        agg.executions += st.executions;
        agg.events += st.events;
        agg.max_points = agg.max_points.max(st.max_points);
        min_bound = min_bound.min(st.completed_bound);
        for (k, v) in &st.metrics {
            let e = agg.metrics.entry(k.clone()).or_insert(0);
            *e = (*e).max(*v);
        }
        for (k, v) in &st.tallies {
            *agg.tallies.entry(k.clone()).or_insert(0) += *v;
        }
        if st.capped.is_some() && agg.capped.is_none() {
            agg.capped = st.capped.clone();
        }
        if (!vs.is_empty() || rows.len() < 12) && rows.len() < 60 {
            rows.push(json!({"cell": lab, "executions": st.executions, "deviation_bound_completed": st.completed_bound, "choice_points": st.max_points, "violating_executions": vs.len()}));
        }
        for v in vs {
            if seen.insert(v.signature.clone()) {
                if v.signature.starts_with("machinery:") {
                    rep.machinery(format!("{} {} [{}]", v.signature, v.what, lab));
                } else {
                    rep.violate(&v.signature, format!("{} [deviations from the default schedule: {:?}]", v.what, v.deviations), json!({"engine": "e2", "property": prop, "cell": lab, "deviations": v.deviations}));
                }
            }
        }
    }
    agg.completed_bound = if min_bound == usize::MAX { 0 } else { min_bound };
    rep.states += agg.executions;
    rep.transitions += agg.events;
    rep.set("sample_cells", json!(rows));
    agg
}

pub fn c03(tier: &str) -> Report {
    let th = tier == "thorough";
    crate::e2::set_budget(if tier == "thorough" { 1200.0 } else { 240.0 });
    let mut rep = Report::new("C03", tier, "fault_enumeration");
    let mut cells: Vec<(C03Cell, usize)> = Vec::new();
    let ns: Vec<usize> = if th { vec![2, 3, 4, 5] } else { vec![2, 3, 4] };
    for &n in &ns {
        let cfg = Cfg { fanout: 3, ..base_cfg() };
        let rot = rotation_events(n, &cfg, false).max(4);
        for failing in subsets(n) {
            for leave in [false, true] {
                for renew in [false, true] {
                    if !leave && renew {
                        continue;
                    }
                    for &mt in if th { &[2u8, 10][..] } else { &[2u8][..] } {
                        let step = if th || n <= 3 { 1 } else { 2 };
                        let mut at = 0;
                        while at < rot {
                            // deviation bound per cell
                            let d = if th { if n <= 3 { 2 } else { 1 } } else { 1 };
                            cells.push((C03Cell { n, failing: failing.clone(), leave, renew, mt, at_event: at, phase: 17, bumped: false, suspect: SUSPECT, prior_indirect: false }, d));
                            // the timeout falls due inside the reply window of a probe round
                            if n <= 3 || th {
                                cells.push((C03Cell { n, failing: failing.clone(), leave, renew, mt, at_event: at, phase: 17, bumped: false, suspect: SUSPECT + 20, prior_indirect: false }, usize::from(th && n <= 3)));
                            }
                            // a round that succeeded through the indirect path long before
                            if n >= 3 && at % 2 == 0 {
                                cells.push((C03Cell { n, failing: failing.clone(), leave, renew, mt, at_event: at, phase: 17, bumped: false, suspect: SUSPECT, prior_indirect: true }, usize::from(th && n <= 3)));
                            }
                            if at % 2 == 0 {
                                cells.push((C03Cell { n, failing: failing.clone(), leave, renew, mt, at_event: at, phase: 17, bumped: true, suspect: SUSPECT, prior_indirect: false }, usize::from(th)));
                            }
                            // other relative alignments of the members' probe loops
                            if at % 3 == 0 && (th || n <= 3) {
                                for phase in [0u64, 41] {
                                    cells.push((C03Cell { n, failing: failing.clone(), leave, renew, mt, at_event: at, phase, bumped: false, suspect: SUSPECT, prior_indirect: false }, d.min(1)));
                                }
                            }
                            at += step;
                        }
                    }
                }
            }
        }
    }
    let agg = fold_cells("C03", &cells, &|c: &C03Cell| c.label(), run_c03, if th { 400_000 } else { 20_000 }, &mut rep);
    rep.evaluations = agg.executions;
    rep.distinct_nontrivial = cells.len() as u64;
    rep.set("fault_cells", json!(cells.len()));
    rep.set("executions", json!(agg.executions));
    rep.set("worst_detection_ticks", json!(agg.metrics.get("worst_detection_ticks")));
    rep.set("max_choice_points_per_run", json!(agg.max_points));
    {
        let c = &cells[cells.len() / 2].0;
        let tr = trace_one(30, || {
            run_c03(c, &BTreeMap::new());
        });
        rep.sample(json!({"cell": c.label(), "schedule": "default", "events_from_the_window_start": tr}));
    }
    rep.rule = "fault cells = cluster size x EVERY non-empty proper subset failing x {crash, leave_cluster while still running} x renewable or not x EVERY event index of one full probe rotation of the default schedule (every second one also with the failing members at incarnation 1 after an earlier refuted suspicion); on top of each cell every schedule with <= D deviations (latencies, tie-breaks, RNG draws). distinct = fault cells".into();
    rep.assume("bound asserted: (2n+1) probe periods + suspect_to_down_after after the failure; suspect_to_down_after >= 2 probe periods as in every Config preset");
    rep.assume("probe_period=100, probe_rtt=40, suspect_to_down_after=300 ticks; latencies 1 or 9 ticks; timers on time");
    rep
}

// ======================================================================
// C04
// ======================================================================

#[derive(Clone, Debug)]
pub struct C04Cell {
    pub n: usize,
    pub notify_down: bool,
    pub renew: bool,
    pub fanout: usize,
    pub mt: u8,
    /// index (within the window) of the datagram that is lost
    pub drop: u64,
    /// 0 plain, 1 slow links (one latency > probe_rtt/2: relays appear),
    /// 2 periodic gossip, 3 a member joins inside the window (Feed)
    pub flavour: u8,
    /// offset between the members' start instants during formation
    pub phase: u64,
    /// suspect_to_down_after in ticks
    pub suspect: u64,
}

impl C04Cell {
    pub fn label(&self) -> String {
        format!("n={} notify_down={} renewable={} fanout={} mt={} flavour={} phase={} suspect_to_down={} lost-datagram#{}", self.n, self.notify_down, self.renew, self.fanout, self.mt, ["plain", "one-slow-ack", "join-with-periodic-gossip", "members-refuted-before(incarnations 1,2,0..)"][self.flavour as usize], self.phase, self.suspect, self.drop)
    }
    fn cfg(&self) -> Cfg {
        Cfg { max_tx: self.mt, fanout: self.fanout, notify_down: self.notify_down, gossip: (self.flavour == 2).then_some((150, 1)), suspect_to_down: self.suspect, ..base_cfg() }
    }
    fn lat(&self) -> Vec<u64> {
        vec![1, 9]
    }
    /// members of the formed cluster (the joiner of flavour 2 is not one)
    fn formed(&self) -> usize {
        if self.flavour == 2 {
            self.n - 1
        } else {
            self.n
        }
    }
}

fn c04_prepare(cell: &C04Cell) -> Result<Sim, String> {
    let n = cell.n;
    let mut sim = Sim::new(n, opts(n, &cell.lat()));
    let cfg = cell.cfg();
    form_cluster(&mut sim, cell.formed().max(1), &cfg, cell.renew, cell.phase)?;
    if cell.flavour == 1 {
        // ONE slow (but delivered) Ack: 45 ticks > probe_rtt, < probe_period.
        // It starts an indirect probe cycle, which puts PingReq /
        // IndirectPing / IndirectAck / ForwardedAck into the window where
        // each of them can be the lost datagram, while the cluster stays
        // otherwise timely.
        sim.delay_next_ack = Some(45);
    }
    if cell.flavour == 3 {
        // earlier, long-refuted suspicions: member 0 runs at incarnation 1,
        // member 1 at incarnation 2, the others at 0
        for (node, times) in [(0u8, 1u16), (1, 2)] {
            if (node as usize) >= n {
                continue;
            }
            for inc in 0..times {
                let me = *sim.nodes[node as usize].as_ref().unwrap().identity();
                sim.call(node, &Ev::Apply(vec![foca::Member::new(me, inc, State::Suspect)], true));
                let until = sim.now + 3 * PERIOD;
                while sim.step(until).is_some() {}
            }
        }
    }
    if cell.flavour == 2 {
        let t = sim.now + 3;
        sim.schedule(t, Evt::Action { node: (n - 1) as u8, code: 0 });
    }
    Ok(sim)
}

pub fn run_c04(cell: &C04Cell, devs: &BTreeMap<usize, usize>) -> RunResult {
    let n = cell.n;
    let mut res = RunResult::default();
    let mut sim = match c04_prepare(cell) {
        Ok(s) => s,
        Err(e) => {
            res.violations.push(("machinery:formation".into(), e));
            return res;
        }
    };
    let cfg = cell.cfg();
    sim.chooser.deviations = devs.clone();
    sim.chooser.recording = true;
    let t0 = sim.now;
    sim.drop_index = Some(sim.sent_count + cell.drop);
    let window = (2 * n as u64 + 2) * PERIOD;
    let horizon = t0 + window + (2 * n as u64 + 4) * PERIOD + SUSPECT;
    // the recovery clause is about the FORMED cluster: a joiner whose own
    // Announce/Feed is the lost datagram is not yet part of it
    let all: Vec<u8> = (0..cell.formed() as u8).collect();
    // heard[x]: a datagram delivered to x carried a Suspect/Down claim about x
    // (the only way a suspect learns that it has something to refute)
    let mut heard = vec![false; n];
    // told_others[x]: a Suspect claim about x was delivered to somebody else
    let mut told_others = vec![false; n];
    while let Some((_, e)) = sim.step(horizon) {
        if let Evt::Deliver { to, bytes, .. } = &e {
            if let Ok(p) = grammar::parse(&sim.codec, bytes) {
                for u in p.updates.iter().flatten() {
                    let a = u.id().addr as usize;
                    if a < n && u.state() != State::Alive {
                        if a == *to as usize {
                            heard[a] = true;
                        } else if u.state() == State::Suspect {
                            told_others[a] = true;
                        }
                    }
                }
            }
        }
        if let Evt::Action { node, .. } = e {
            sim.spawn(node, node_id(node, cell.renew), &cfg);
            sim.call(node, &Ev::Announce(id(0, 0)));
        }
        if sim.panicked.is_some() {
            break;
        }
    }
    // root cause of a run that went wrong: its first MemberDown. When the
    // member it names never received a single claim about itself and
    // max_transmissions is tiny, the suspicion was spent among the others
    // (known finding F12), whatever follows from it
    let first_down = sim
        .logs
        .iter()
        .flat_map(|l| l.notes.iter().filter_map(|(t, x)| if let N::MemberDown(i) = x { Some((*t, *i)) } else { None }))
        .min_by_key(|x| x.0);
    let starved = first_down.is_some_and(|(_, i)| cell.mt <= 2 && n >= 3 && !heard[i.addr as usize] && told_others[i.addr as usize]);
    common_violations(&sim, &mut res, "c04");
    match &sim.dropped {
        None => {
            // the window held fewer datagrams: nothing was lost in this run
            res.tallies.insert("runs_without_loss".into(), 1);
        }
        Some((_, _, d)) => {
            *res.tallies.entry(format!("dropped:{}", kind_of(&sim.codec, d))).or_insert(0) += 1;
        }
    }
    for (a, l) in sim.logs.iter().enumerate() {
        if let Some((t, x)) = l.notes.iter().find(|(_, x)| matches!(x, N::MemberDown(_) | N::Defunct | N::Rejoin(_))) {
            let what = match x {
                N::MemberDown(_) => "member-down",
                N::Defunct => "defunct",
                _ => "rejoin",
            };
            let sig = if starved { "member-down|suspicion-never-reached-the-suspect|max_transmissions<=2".to_string() } else { format!("c04:{what}") };
            res.violations.push((sig, format!("t={t} node {a} notified {} after the loss of {} [{}]", show_note(x), sim.dropped.as_ref().map(|(f, to, d)| format!("{}->{} {}", f, to, show_dgram(&sim.codec, d))).unwrap_or_default(), cell.label())));
        }
    }
    if res.violations.is_empty() && !sim.lists_alive(&all) {
        let views: Vec<String> = all.iter().filter_map(|a| sim.view(*a).map(|v| v.show())).collect();
        res.violations.push(("c04:not-recovered".into(), format!("at the horizon not every instance lists every other as Alive: {} [{}]", views.join(" | "), cell.label())));
    }
    res.events = sim.events_processed;
    res.points = sim.chooser.points;
    res
}

/// datagrams sent in the window of the default schedule
fn c04_window_datagrams(cell: &C04Cell) -> u64 {
    let Ok(mut sim) = c04_prepare(cell) else { return 0 };
    let cfg = cell.cfg();
    let t0 = sim.now;
    let s0 = sim.sent_count;
    let window = (2 * cell.n as u64 + 2) * PERIOD;
    while let Some((_, e)) = sim.step(t0 + window) {
        if let Evt::Action { node, .. } = e {
            sim.spawn(node, node_id(node, cell.renew), &cfg);
            sim.call(node, &Ev::Announce(id(0, 0)));
        }
    }
    sim.sent_count - s0
}

pub fn c04(tier: &str) -> Report {
    let th = tier == "thorough";
    crate::e2::set_budget(if tier == "thorough" { 1200.0 } else { 240.0 });
    let mut rep = Report::new("C04", tier, "fault_enumeration");
    let mut cells: Vec<(C04Cell, usize)> = Vec::new();
    let ns: Vec<usize> = if th { vec![2, 3, 4, 5] } else { vec![2, 3, 4] };
    for &n in &ns {
        for notify_down in [false, true] {
            for renew in [false, true] {
                for &fanout in &[1usize, 3] {
                    for &mt in &[2u8, 10] {
                        for flavour in 0..4u8 {
                            if flavour == 2 && n < 3 {
                                continue;
                            }
                            if flavour == 3 && !th && n > 3 {
                                continue;
                            }
                            if !th && ((fanout == 1) != (mt == 2) || (flavour >= 2 && (renew != notify_down))) {
                                continue;
                            }
                            // formation phase: how the members' probe loops are
                            // aligned relative to each other
                            for phase in [17u64, 0, 41] {
                                if phase != 17 && !(th || (n <= 3 && flavour == 0)) {
                                    continue;
                                }
                                let proto = C04Cell { n, notify_down, renew, fanout, mt, drop: 0, flavour, phase, suspect: SUSPECT };
                                let total = c04_window_datagrams(&proto);
                                for drop in 0..total {
                                    let d = if th { if n <= 3 { 2 } else { 1 } } else if n <= 3 { 1 } else { 0 };
                                    let d = if phase == 17 { d } else { d.min(1) };
                                    cells.push((C04Cell { drop, ..proto.clone() }, d));
                                }
                                // the shortest grace period that still lets a suspect
                                // refute in time: one probe period
                                if flavour == 0 && phase == 17 && n <= 3 {
                                    let proto = C04Cell { suspect: PERIOD, ..proto.clone() };
                                    let total = c04_window_datagrams(&proto);
                                    for drop in 0..total {
                                        cells.push((C04Cell { drop, ..proto.clone() }, usize::from(th)));
                                    }
                                }
                            }
                        }
                    }
                }
            }
        }
    }
    let agg = fold_cells("C04", &cells, &|c: &C04Cell| c.label(), run_c04, if th { 300_000 } else { 6_000 }, &mut rep);
    rep.evaluations = agg.executions;
    rep.distinct_nontrivial = cells.len() as u64;
    rep.set("fault_cells(one per lost datagram)", json!(cells.len()));
    rep.set("executions", json!(agg.executions));
    rep.set("lost_datagram_kinds", json!(agg.tallies));
    rep.set("max_choice_points_per_run", json!(agg.max_points));
    for k in ["Ping", "Ack", "PingReq", "IndirectPing", "IndirectAck", "ForwardedAck", "Gossip", "Feed"] {
        if rep.violations.is_empty() && agg.tallies.get(&format!("dropped:{k}")).copied().unwrap_or(0) == 0 {
            rep.machinery(format!("vacuous: no {k} datagram was ever the lost one"));
        }
    }
    {
        let c = &cells[cells.len() / 3].0;
        let tr = trace_one(30, || {
            run_c04(c, &BTreeMap::new());
        });
        rep.sample(json!({"cell": c.label(), "schedule": "default", "events_from_the_window_start": tr}));
    }
    rep.rule = "fault cells = cluster size x notify_down_members x renewable x fan-out x max_transmissions x traffic flavour (plain / slow links so that indirect-probe relays exist / periodic gossip / a join inside the window / members at incarnations 1 and 2 after earlier refuted suspicions) x EVERY datagram index of a window of 2n+2 probe periods lost; on top of each cell every schedule with <= D deviations. distinct = fault cells".into();
    rep.assume("probe_period=100, probe_rtt=40, suspect_to_down_after=300 ticks; latencies {1,9} ticks; in the one-slow-ack flavour exactly one Ack takes 45 extra ticks (> probe_rtt, < probe_period) so that an indirect probe cycle exists whose relays can be the lost datagram");
    rep.assume("the recovery clause is judged on the members of the formed cluster (a joiner whose own Announce or Feed is lost is not yet part of it)");
    rep.assume("horizon: window + (2n+4) probe periods + suspect_to_down_after");
    rep
}
