//! C20: the bundled bincode and postcard codecs round-trip exactly and fail
//! cleanly. Bounded-exhaustive over Header/Member values at the varint
//! boundaries of both formats, every buffer limit, every truncation, every
//! single-byte substitution and all short byte strings.
use crate::gen::*;
use crate::report::Report;
use bytes::{Buf, BufMut};
use foca::{BincodeCodec, Codec, Header, Member, Message, PostcardCodec, State};
use rayon::prelude::*;
use serde::{de::DeserializeOwned, Serialize};
use serde_json::json;
use std::fmt::Debug;
use std::panic::{catch_unwind, AssertUnwindSafe};

fn incs() -> Vec<u16> {
    vec![0, 1, 127, 128, 250, 251, 16383, 16384, 65535]
}
fn probes() -> Vec<u8> {
    vec![0, 127, 128, 250, 251, 255]
}

fn messages<T: Clone>(ids: &[T]) -> Vec<Message<T>> {
    let mut v = vec![Message::Announce, Message::Feed, Message::Gossip, Message::Broadcast, Message::TurnUndead];
    for n in probes() {
        v.push(Message::Ping(n));
        v.push(Message::Ack(n));
        for i in ids.iter().take(3) {
            v.push(Message::PingReq { target: i.clone(), probe_number: n });
            v.push(Message::IndirectPing { origin: i.clone(), probe_number: n });
            v.push(Message::IndirectAck { target: i.clone(), probe_number: n });
            v.push(Message::ForwardedAck { origin: i.clone(), probe_number: n });
        }
    }
    v
}

fn headers<T: Clone>(ids: &[T]) -> Vec<Header<T>> {
    let msgs = messages(ids);
    let mut v = Vec::new();
    for (k, src) in ids.iter().enumerate() {
        for dst in [&ids[(k + 1) % ids.len()], &ids[(k + 3) % ids.len()]] {
            for inc in incs() {
                for m in &msgs {
                    v.push(Header { src: src.clone(), src_incarnation: inc, dst: dst.clone(), message: m.clone() });
                }
            }
        }
    }
    v
}

fn members<T: Clone>(ids: &[T]) -> Vec<Member<T>> {
    let mut v = Vec::new();
    for i in ids {
        for inc in incs() {
            for st in [State::Alive, State::Suspect, State::Down] {
                v.push(Member::new(i.clone(), inc, st));
            }
        }
    }
    v
}

fn sids() -> Vec<SId> {
    let nums = [0u64, 1, 127, 128, 16383, 16384, (1 << 32) - 1, 1 << 32, u64::MAX];
    let strs = [String::new(), "a".into(), "x".repeat(127), "y".repeat(128)];
    let mut v = Vec::new();
    for (k, a) in nums.iter().enumerate() {
        v.push(SId { a: *a, s: strs[k % strs.len()].clone() });
    }
    v.push(SId { a: 7, s: "x".repeat(127) });
    v.push(SId { a: 7, s: "y".repeat(128) });
    v
}
fn bids() -> Vec<BId> {
    let mut v = Vec::new();
    for (k, ip) in [[0u8, 0, 0, 0], [127, 0, 0, 1], [128, 255, 250, 251], [255, 255, 255, 255], [10, 1, 2, 3]].iter().enumerate() {
        v.push(BId { ip: *ip, port: [0u16, 127, 128, 16384, 65535][k], tag: [0u8, 127, 128, 251, 255][k], flag: k % 2 == 0 });
    }
    v
}
fn nids() -> Vec<NId> {
    let nums = [0u64, 1, 127, 128, 250, 251, 16383, 16384, (1 << 32) - 1, 1 << 32, (1 << 32) + 1, u64::MAX];
    nums.iter().enumerate().map(|(k, a)| NId { a: *a, g: [0u32, 127, 128, 251, u32::MAX][k % 5] }).collect()
}

/// Largest length a bincode varint marker 0xfd (u64 follows) claims anywhere
/// in the input.
pub fn claimed_len(b: &[u8]) -> u64 {
    let mut best = 0u64;
    for i in 0..b.len() {
        if b[i] == 0xfd && i + 9 <= b.len() {
            let mut w = [0u8; 8];
            w.copy_from_slice(&b[i + 1..i + 9]);
            best = best.max(u64::from_le_bytes(w));
        }
    }
    best
}

#[derive(Default, Debug, Clone)]
pub struct Tally {
    pub values: u64,
    pub evaluations: u64,
    pub limit_cases: u64,
    pub truncations: u64,
    pub substitutions: u64,
    pub short_strings: u64,
    pub decode_ok: u64,
    pub decode_err: u64,
    pub unbounded_len: Vec<Vec<u8>>,
}
impl Tally {
    fn merge(&mut self, o: Tally) {
        self.values += o.values;
        self.evaluations += o.evaluations;
        self.limit_cases += o.limit_cases;
        self.truncations += o.truncations;
        self.substitutions += o.substitutions;
        self.short_strings += o.short_strings;
        self.decode_ok += o.decode_ok;
        self.decode_err += o.decode_err;
        self.unbounded_len.extend(o.unbounded_len);
        self.unbounded_len.sort_by_key(|b| std::cmp::Reverse(claimed_len(b)));
        self.unbounded_len.dedup();
        self.unbounded_len.truncate(8);
    }
}

trait Item<T>: Sized + Clone + PartialEq + Debug {
    fn enc<C: Codec<T>>(&self, c: &mut C, buf: impl BufMut) -> Result<(), C::Error>;
    fn dec<C: Codec<T>>(c: &mut C, buf: impl Buf) -> Result<Self, C::Error>;
    fn guard<W: Wire<T>>(w: &W, cur: &mut &[u8]) -> Result<(), String>;
}
impl<T: Clone + PartialEq + Debug> Item<T> for Header<T> {
    fn enc<C: Codec<T>>(&self, c: &mut C, buf: impl BufMut) -> Result<(), C::Error> {
        c.encode_header(self, buf)
    }
    fn dec<C: Codec<T>>(c: &mut C, buf: impl Buf) -> Result<Self, C::Error> {
        c.decode_header(buf)
    }
    fn guard<W: Wire<T>>(w: &W, cur: &mut &[u8]) -> Result<(), String> {
        w.header(cur).map(|_| ())
    }
}
impl<T: Clone + PartialEq + Debug> Item<T> for Member<T> {
    fn enc<C: Codec<T>>(&self, c: &mut C, buf: impl BufMut) -> Result<(), C::Error> {
        c.encode_member(self, buf)
    }
    fn dec<C: Codec<T>>(c: &mut C, buf: impl Buf) -> Result<Self, C::Error> {
        c.decode_member(buf)
    }
    fn guard<W: Wire<T>>(w: &W, cur: &mut &[u8]) -> Result<(), String> {
        w.member(cur).map(|_| ())
    }
}

/// Decode arbitrary bytes: must return (never panic) and never read past the
/// input. `guard` runs the limited decoder first when the wire format can
/// allocate an unbounded claimed length (bincode standard()).
fn decode_any<T, C, W, I>(codec: &C, wire: &W, bytes: &[u8], guarded: bool, t: &mut Tally) -> Result<(), String>
where
    C: Codec<T> + Clone,
    W: Wire<T>,
    I: Item<T>,
{
    if guarded {
        let mut cur = bytes;
        if let Err(e) = I::guard(wire, &mut cur) {
            if e.contains("LimitExceeded") {
                // keep the candidates that claim the largest lengths
                t.unbounded_len.push(bytes.to_vec());
                t.unbounded_len.sort_by_key(|b| std::cmp::Reverse(claimed_len(b)));
                t.unbounded_len.dedup();
                t.unbounded_len.truncate(4);
                return Ok(());
            }
        }
    }
    let mut c = codec.clone();
    let mut cur: &[u8] = bytes;
    let r = catch_unwind(AssertUnwindSafe(|| I::dec(&mut c, &mut cur).is_ok()));
    t.evaluations += 1;
    match r {
        Err(_) => Err(format!("decoding {:02x?} panicked: {}", bytes, crate::core::take_last_panic().unwrap_or_default())),
        Ok(ok) => {
            if ok {
                t.decode_ok += 1;
            } else {
                t.decode_err += 1;
            }
            if cur.len() > bytes.len() {
                return Err("decoder read past the input".into());
            }
            Ok(())
        }
    }
}

fn check_value<T, C, W, I>(codec: &C, wire: &W, v: &I, tail_item: &[u8], guarded: bool, full_subst: bool, t: &mut Tally) -> Result<(), String>
where
    T: Clone + PartialEq + Debug,
    C: Codec<T> + Clone,
    C::Error: Debug,
    W: Wire<T>,
    I: Item<T>,
{
    t.values += 1;
    let mut c = codec.clone();
    let mut enc: Vec<u8> = Vec::new();
    let r = catch_unwind(AssertUnwindSafe(|| v.enc(&mut c, &mut enc)));
    match r {
        Err(_) => return Err(format!("encoding {:?} panicked", v)),
        Ok(Err(e)) => return Err(format!("encoding {:?} into an unbounded buffer failed: {:?}", v, e)),
        Ok(Ok(())) => {}
    }
    t.evaluations += 1;
    let len = enc.len();
    // round trip, consuming exactly `len` whatever follows
    for tail in [&[][..], &[0x55][..], tail_item] {
        let mut buf = enc.clone();
        buf.extend_from_slice(tail);
        let mut cur: &[u8] = &buf;
        let got = catch_unwind(AssertUnwindSafe(|| I::dec(&mut c, &mut cur)));
        t.evaluations += 1;
        match got {
            Err(_) => return Err(format!("decoding the encoding of {:?} panicked", v)),
            Ok(Err(e)) => return Err(format!("decoding the encoding of {:?} failed: {:?}", v, e)),
            Ok(Ok(back)) => {
                if back != *v {
                    return Err(format!("round trip changed the value: {:?} -> {:?}", v, back));
                }
                if cur.len() != tail.len() {
                    return Err(format!("decoding {:?} consumed {} bytes but the encoding has {} (tail of {} bytes)", v, buf.len() - cur.len(), len, tail.len()));
                }
            }
        }
    }
    // every insufficient buffer: an error, no panic, never more than k bytes written
    for k in 0..len {
        let mut out: Vec<u8> = Vec::with_capacity(len);
        let r = catch_unwind(AssertUnwindSafe(|| {
            let mut lim = (&mut out).limit(k);
            v.enc(&mut c, &mut lim).is_ok()
        }));
        t.evaluations += 1;
        t.limit_cases += 1;
        match r {
            Err(_) => return Err(format!("encoding {:?} into a buffer of {k} bytes (needs {len}) panicked: {}", v, crate::core::take_last_panic().unwrap_or_default())),
            Ok(true) => return Err(format!("encoding {:?} into a buffer of {k} bytes (needs {len}) reported success", v)),
            Ok(false) => {
                if out.len() > k {
                    return Err(format!("encoding {:?} wrote {} bytes into a buffer limited to {k}", v, out.len()));
                }
            }
        }
    }
    // every truncation decodes to a value or an error, no panic
    for k in 0..len {
        t.truncations += 1;
        decode_any::<T, C, W, I>(codec, wire, &enc[..k], guarded, t)?;
    }
    // single-byte substitutions
    let subs: Vec<u8> = if full_subst { (0..=255u8).collect() } else { vec![0, 1, 0x7f, 0x80, 0xfa, 0xfb, 0xfc, 0xfd, 0xfe, 0xff] };
    for k in 0..len {
        for b in &subs {
            if enc[k] != *b {
                let mut m = enc.clone();
                m[k] = *b;
                t.substitutions += 1;
                decode_any::<T, C, W, I>(codec, wire, &m, guarded, t)?;
            }
        }
    }
    Ok(())
}

fn sweep<T, C, W>(label: &str, codec: C, wire: W, ids: Vec<T>, guarded: bool, thorough: bool, rep: &mut Report) -> Tally
where
    T: Clone + PartialEq + Debug + Send + Sync + Serialize + DeserializeOwned,
    C: Codec<T> + Clone + Send + Sync,
    C::Error: Debug,
    W: Wire<T>,
{
    let hs = headers(&ids);
    let ms = members(&ids);
    // "a second valid item" appended after an encoding
    let mut c = codec.clone();
    let mut tail = Vec::new();
    let _ = c.encode_member(&ms[1], &mut tail);
    let stride_full = if thorough { 1 } else { 97 };
    let run = |r: Vec<Result<Tally, String>>, rep: &mut Report, total: &mut Tally| {
        for x in r {
            match x {
                Ok(t) => total.merge(t),
                Err(e) => {
                    let sig = if e.contains("panicked") {
                        "c20:panic"
                    } else if e.contains("round trip") || e.contains("consumed") {
                        "c20:roundtrip"
                    } else if e.contains("buffer") {
                        "c20:limited-buffer"
                    } else {
                        "c20:other"
                    };
                    rep.violate(sig, format!("[{label}] {e}"), json!({"engine": "e3-c20", "codec": label}));
                }
            }
        }
    };
    let mut total = Tally::default();
    let r: Vec<Result<Tally, String>> = hs
        .par_iter()
        .enumerate()
        .map(|(i, h)| {
            let mut t = Tally::default();
            check_value::<T, C, W, Header<T>>(&codec, &wire, h, &tail, guarded, i % stride_full == 0, &mut t)?;
            Ok(t)
        })
        .collect();
    run(r, rep, &mut total);
    let r: Vec<Result<Tally, String>> = ms
        .par_iter()
        .enumerate()
        .map(|(i, m)| {
            let mut t = Tally::default();
            check_value::<T, C, W, Member<T>>(&codec, &wire, m, &tail, guarded, i % 7 == 0 || thorough, &mut t)?;
            Ok(t)
        })
        .collect();
    run(r, rep, &mut total);
    // all byte strings of length <= 2 (<= 3 thorough), as header and as member
    let r: Vec<Result<Tally, String>> = (0..=255u8)
        .into_par_iter()
        .map(|a| {
            let mut t = Tally::default();
            let try_both = |bytes: &[u8], t: &mut Tally| -> Result<(), String> {
                t.short_strings += 1;
                decode_any::<T, C, W, Header<T>>(&codec, &wire, bytes, guarded, t)?;
                decode_any::<T, C, W, Member<T>>(&codec, &wire, bytes, guarded, t)
            };
            if a == 0 {
                try_both(&[], &mut t)?;
            }
            try_both(&[a], &mut t)?;
            for b in 0..=255u8 {
                try_both(&[a, b], &mut t)?;
                if thorough {
                    for c in 0..=255u8 {
                        try_both(&[a, b, c], &mut t)?;
                    }
                }
            }
            Ok(t)
        })
        .collect();
    run(r, rep, &mut total);
    total
}

pub fn c20(tier: &str) -> Report {
    let th = tier == "thorough";
    let mut rep = Report::new("C20", tier, "model_checking");
    let mut rows = Vec::new();
    let mut f11: Vec<Vec<u8>> = Vec::new();
    macro_rules! one {
        ($label:expr, $codec:expr, $wire:expr, $ids:expr, $guarded:expr) => {{
            let t = sweep($label, $codec, $wire, $ids, $guarded, th, &mut rep);
            rows.push(json!({"codec": $label, "values": t.values, "codec_calls": t.evaluations, "limited_buffer_cases": t.limit_cases, "truncations": t.truncations, "byte_substitutions": t.substitutions, "short_byte_strings": t.short_strings, "arbitrary_decodes_ok": t.decode_ok, "arbitrary_decodes_err": t.decode_err, "inputs_with_unbounded_length_prefix_not_decoded_in_process": t.unbounded_len.len()}));
            rep.evaluations += t.evaluations;
            rep.distinct_nontrivial += t.values + t.truncations + t.substitutions + t.short_strings;
            t
        }};
    }
    one!("postcard / String identity", PostcardCodec, PostcardWire, sids(), false);
    one!("postcard / integer identity", PostcardCodec, PostcardWire, nids(), false);
    one!("postcard / byte-field identity", PostcardCodec, PostcardWire, bids(), false);
    let t = one!("bincode standard() / byte-field identity", BincodeCodec(bincode::config::standard()), BincodeWire, bids(), true);
    if let Some(b) = t.unbounded_len.first() {
        rep.violate("c20:bincode-byte-identity-length-prefix", format!("fixed-size identity yet the limited decoder reports an unbounded length on {:02x?}", b), json!({"engine": "e3-c20"}));
    }
    let t = one!("bincode standard() / integer identity", BincodeCodec(bincode::config::standard()), BincodeWire, nids(), true);
    if let Some(b) = t.unbounded_len.first() {
        rep.violate("c20:bincode-integer-identity-length-prefix", format!("integer-only identity yet the limited decoder reports an unbounded length on {:02x?}", b), json!({"engine": "e3-c20"}));
    }
    let t = one!("bincode standard() / String identity", BincodeCodec(bincode::config::standard()), BincodeWire, sids(), true);
    f11.extend(t.unbounded_len);
    // non-default configurations: the codec decodes with what it was built with
    one!("bincode standard().with_big_endian() / integer identity", BincodeCodec(bincode::config::standard().with_big_endian()), BincodeBeWire, nids(), true);
    one!("bincode legacy() / integer identity", BincodeCodec(bincode::config::legacy()), BincodeLegacyWire, nids(), true);
    one!("bincode legacy() / byte-field identity", BincodeCodec(bincode::config::legacy()), BincodeLegacyWire, bids(), true);
    // "Foca's datagrams stay well-formed when an encode runs out of space
    // mid-feed": the datagram size sweep (every scenario, Feed included, every
    // packet size) with the bundled codecs inside real instances
    let sweeps = crate::c07::bundled_codec_sweeps(th, &mut rep);
    rep.set("datagrams_built_with_the_bundled_codecs(size sweep)", json!(sweeps));
    // F11: demonstrate the abort in a child process
    let mut demo = Vec::new();
    if let Ok(exe) = std::env::current_exe() {
        f11.sort_by_key(|c| std::cmp::Reverse(claimed_len(c)));
        for c in f11.iter().take(6) {
            let hex: String = c.iter().map(|b| format!("{b:02x}")).collect();
            if let Ok(o) = std::process::Command::new(&exe).args(["abort-demo-decode", &hex]).env("RUST_BACKTRACE", "0").output() {
                let stderr = String::from_utf8_lossy(&o.stderr).to_string();
                let first = stderr.lines().next().unwrap_or("").to_string();
                // allocation failure aborts; a length near u64::MAX panics with
                // "capacity overflow" instead: both are the same defect
                let aborted = !o.status.success();
                demo.push(json!({"input": hex, "child_status": format!("{:?}", o.status), "stderr": first}));
                if aborted {
                    rep.violate("bincode-unbounded-length-prefix", format!("BincodeCodec(standard()).decode_header({hex}) with a String identity kills the process ({:?}): {first}", o.status), json!({"engine": "child-process", "cmd": format!("verif abort-demo-decode {hex}")}));
                    break;
                }
            }
        }
    }
    rep.set("bincode_string_identity_abort_demo", json!(demo));
    rep.set("sweeps", json!(rows));
    rep.states = rep.distinct_nontrivial;
    rep.transitions = rep.evaluations;
    rep.exhaustive = true;
    rep.rule = "Header/Member values over every Message variant x identities / incarnations / probe numbers at the varint boundaries of both formats; per value: round trip with 3 tails, EVERY insufficient buffer size, EVERY truncation, byte substitutions (all 256 values on a stride, 10 boundary values elsewhere); all byte strings of length <=2 (<=3 thorough) as header and as member. distinct = values + truncations + substitutions + short strings".into();
    rep.sample(json!({"value": "Header{src: SId{a: 2^32, s: 'y'*128}, src_incarnation: 16384, dst: .., message: PingReq{target: .., probe_number: 251}}", "checks": "round trip x3 tails, every Limit(k<len), every truncation, substitutions"}));
    rep.assume("inputs on which the *limited* bincode decoder reports LimitExceeded are not decoded in-process with standard() (they may abort); the first such input is run in a child process");
    rep
}

/// Child mode for the F11 demonstration at codec level.
pub fn abort_demo_decode(hex: &str) -> i32 {
    let bytes: Vec<u8> = (0..hex.len() / 2).filter_map(|i| u8::from_str_radix(&hex[2 * i..2 * i + 2], 16).ok()).collect();
    let mut c = BincodeCodec(bincode::config::standard());
    let r: Result<Header<SId>, _> = c.decode_header(&bytes[..]);
    println!("returned ok={}", r.is_ok());
    let r: Result<Member<SId>, _> = c.decode_member(&bytes[..]);
    println!("returned ok={}", r.is_ok());
    0
}
