//! C06: Foca never panics, overflows or aborts.
//!
//! (a) E1 with a *hostile* alphabet (adversarial datagram fields, fabricated
//!     timers with arbitrary tokens/identities, every public method,
//!     set_config with every legal variation) — only the no-panic oracle and
//!     the datagram grammar run here;
//! (b) byte-level: every truncation / byte substitution / length-field
//!     overwrite of every distinct datagram emitted in (a), all short byte
//!     strings, oversized buffers — four wire formats;
//! (c) Config::new_lan / new_wan for every NonZeroU32 (thorough) or a
//!     boundary-heavy subset (quick).
//! Everything runs in the checking profile (debug assertions + overflow
//! checks) and again in a plain release build; the two must agree.
use crate::checks_e1::*;
use crate::core::*;
use crate::doubles::*;
use crate::e1::*;
use crate::gen::*;
use crate::report::Report;
use crate::rng::ChoiceRng;
use crate::spec_core::*;
use foca::{Codec, Foca, Identity, Member, Message, State};
use rayon::prelude::*;
use serde_json::json;
use std::collections::HashSet;
use std::fmt::Debug;
use std::num::NonZeroU32;
use std::sync::Mutex;

pub struct HostileSpec {
    pub base: CoreSpec,
    pub emitted: Mutex<HashSet<Vec<u8>>>,
}

const E: u8 = 4;

impl HostileSpec {
    fn extra_menu(&self, node: &Node<CoreMon>, view: &View) -> Vec<Ev> {
        let codec = self.base.codec;
        let me = view.id;
        let other_gen = Id { gen: me.gen.wrapping_add(1), ..me };
        let b = id(B, 0);
        let e = id(E, 0);
        let tok = node.f.verif_snapshot().timer_token;
        let mut v = Vec::new();
        let mut push = |src: Id, inc: u16, dst: Id, msg: Message<Id>, ups: Option<&[Member<Id>]>| {
            v.push(Ev::Data(dgram(&codec, src, inc, dst, msg, ups, &[])));
        };
        let who = [me, other_gen, b, e];
        for n in [0u8, 255] {
            push(b, 0, me, Message::Ping(n), None);
            push(b, 0, me, Message::Ack(n), None);
        }
        for t in who {
            push(b, 0, me, Message::PingReq { target: t, probe_number: 0 }, None);
            push(b, 0, me, Message::IndirectPing { origin: t, probe_number: 255 }, None);
            push(b, 0, me, Message::IndirectAck { target: t, probe_number: 0 }, None);
            push(b, 0, me, Message::ForwardedAck { origin: t, probe_number: 255 }, None);
        }
        for m in [Message::Announce, Message::TurnUndead, Message::Broadcast, Message::Feed] {
            push(b, 0, me, m.clone(), None);
            push(e, u16::MAX, me, m, None);
        }
        let payloads: Vec<Vec<Member<Id>>> = vec![
            vec![mm(me, u16::MAX, State::Suspect)],
            vec![mm(me, 0, State::Down)],
            vec![mm(b, u16::MAX, State::Down)],
            vec![mm(other_gen, 0, State::Alive)],
            vec![mm(e, u16::MAX, State::Suspect), mm(e, 0, State::Alive), mm(e, 0, State::Down)],
        ];
        for p in &payloads {
            push(b, 0, me, Message::Gossip, Some(p));
            push(b, u16::MAX, me, Message::Feed, Some(p));
        }
        // claims to be us; addressed elsewhere
        push(me, 0, me, Message::Ping(1), None);
        push(other_gen, 0, me, Message::Gossip, None);
        push(b, 0, other_gen, Message::Announce, None);
        push(b, 0, other_gen, Message::Ping(1), None);
        push(b, 0, e, Message::Gossip, None);
        // update count larger than what is present; junk tail
        let mut d = dgram(&codec, b, 0, me, Message::Gossip, Some(&payloads[1]), &[]);
        let hl = d.len() - 7;
        d[hl + 1] = 200;
        v.push(Ev::Data(d));
        let mut d = dgram(&codec, b, 0, me, Message::Gossip, Some(&[]), &[&[1, 2, 3]]);
        let l = d.len();
        d[l - 4] = 0xFF;
        v.push(Ev::Data(d));
        // fabricated timers
        v.push(Ev::Timer(TimerKey::ProbeRandomMember(255)));
        v.push(Ev::Timer(TimerKey::ChangeSuspectToDown { member: b, inc: 0, token: 0 }));
        for t in [tok, tok.wrapping_add(1)] {
            v.push(Ev::Timer(TimerKey::ProbeRandomMember(t)));
            v.push(Ev::Timer(TimerKey::PeriodicAnnounce(t)));
            v.push(Ev::Timer(TimerKey::PeriodicGossip(t)));
            v.push(Ev::Timer(TimerKey::PeriodicAnnounceDown(t)));
            for i in [b, e, me] {
                v.push(Ev::Timer(TimerKey::SendIndirectProbe { probed: i, token: t }));
                for inc in [0u16, u16::MAX] {
                    v.push(Ev::Timer(TimerKey::ChangeSuspectToDown { member: i, inc, token: t }));
                }
            }
        }
        for i in [b, e, me, other_gen] {
            v.push(Ev::Timer(TimerKey::RemoveDown(i)));
        }
        // API with adversarial arguments
        for dst in [b, me, other_gen, e] {
            v.push(Ev::Announce(dst));
        }
        v.push(Ev::ChangeId(me));
        v.push(Ev::ChangeId(b));
        v.push(Ev::ChangeId(other_gen));
        v.push(Ev::Apply(vec![mm(me, u16::MAX, State::Suspect)], true));
        v.push(Ev::Apply(vec![mm(other_gen, 3, State::Suspect), mm(b, u16::MAX, State::Suspect), mm(b, 0, State::Down)], true));
        v.push(Ev::Apply(vec![mm(e, 0, State::Alive), mm(id(5, 0), 0, State::Alive), mm(id(6, 0), 0, State::Alive)], false));
        v
    }
}

impl Spec for HostileSpec {
    type Mon = CoreMon;
    fn name(&self) -> String {
        self.base.label.clone()
    }
    fn codec(&self) -> FixCodec {
        self.base.codec
    }
    fn fresh(&self) -> (F, CoreMon) {
        self.base.fresh()
    }
    fn seeds(&self) -> Vec<Vec<HistStep>> {
        self.base.seed_hists.clone()
    }
    fn rng_menu(&self) -> &[u32] {
        &self.base.words
    }
    fn menu(&self, node: &Node<CoreMon>, view: &View) -> Vec<Ev> {
        let mut v = self.base.menu(node, view);
        v.extend(self.extra_menu(node, view));
        v
    }
    fn step(&self, cx: &StepCtx<'_, CoreMon>, mon: &mut CoreMon) -> Result<(), Viol> {
        if !cx.out.effects.is_empty() {
            let mut g = self.emitted.lock().unwrap();
            for (_, d) in cx.out.sends() {
                if g.len() < 50_000 && d.len() <= 64 {
                    g.insert(d.clone());
                }
            }
        }
        // Lenient grammar: the hostile alphabet breaks preconditions the full
        // C07 oracle relies on (e.g. change_identity to a peer's identity), so
        // only size, framing and destination are judged here.
        let cap = self.base.current_max_packet(&cx.pre.f).max(self.base.current_max_packet(cx.post));
        for (to, d) in cx.out.sends() {
            if d.len() > cap {
                return Err(viol("c06:oversized-datagram", format!("datagram of {} bytes with max_packet_size {}", d.len(), cap)));
            }
            match crate::grammar::parse(&self.base.codec, d) {
                Err(e) => return Err(viol("c06:malformed-datagram", format!("emitted datagram does not parse ({e}): {:02x?}", &d[..d.len().min(48)]))),
                Ok(p) => {
                    if p.header.dst != *to {
                        return Err(viol("c06:wrong-dst", format!("dst {} != destination {}", p.header.dst.show(), to.show())));
                    }
                }
            }
        }
        self.base.step(cx, mon)
    }
}

pub fn hostile_spec(words: &[u32]) -> HostileSpec {
    hostile_spec_with(words, false)
}

/// `fail_down`: the codec returns an error for every Down member it is asked
/// to encode (the seeds are built with that codec too).
pub fn hostile_spec_with(words: &[u32], fail_down: bool) -> HostileSpec {
    let me = id(A, 1).with(Renew::Next);
    let cfg = Cfg { notify_down: true, announce: Some((500, 1)), announce_down: Some((500, 2)), gossip: Some((200, 1)), max_packet: 1400, ..Cfg::default() };
    let mut base = CoreSpec::new(if fail_down { "c06-hostile-failing-codec" } else { "c06-hostile" }, me, cfg.clone());
    base.codec.fail_down = fail_down;
    base.words = words.to_vec();
    base.mons.c07 = false;
    let cfgs = vec![
        Cfg { max_packet: 20, ..cfg.clone() },
        Cfg { max_packet: 3000, ..cfg.clone() },
        Cfg { max_packet: 1, ..cfg.clone() },
        Cfg { max_packet: 70_000, ..cfg.clone() },
        Cfg { max_tx: 1, fanout: 1, ..cfg.clone() },
        Cfg { max_tx: 255, fanout: 64, ..cfg.clone() },
        Cfg { announce: None, announce_down: None, gossip: None, notify_down: false, ..cfg.clone() },
        Cfg { gossip: Some((1, 64)), suspect_to_down: 0, remove_down: 0, ..cfg.clone() },
    ];
    let mut api: Vec<Ev> = cfgs.into_iter().map(|c| Ev::SetConfig(Box::new(c))).collect();
    api.extend([Ev::Apply(vec![al(id(D, 0))], true), Ev::Gossip, Ev::Broadcast, Ev::Leave, Ev::Reuse, Ev::AddBroadcast(vec![]), Ev::AddBroadcast(vec![1, 1, 1]), Ev::AddBroadcast(vec![0xFF]), Ev::AddBroadcast(vec![2; 1500]), Ev::AddBroadcast(vec![3; 66_000])]);
    base.alpha = Alpha { api, ..Alpha::default() };
    let mut sb = SeedBuilder::new(&base);
    sb.ev(Ev::Apply(vec![al(id(B, 0)), al(id(C, 0))], true));
    base.seed_hists.push(sb.done());
    // (the failing-codec exploration keeps to two seeds: quick-tier budget)
    if !fail_down {
        let mut sb = SeedBuilder::new(&base);
        sb.ev(Ev::Apply(vec![al(id(B, 0)), al(id(C, 0))], true));
        sb.fire(|t| matches!(t, TimerKey::ProbeRandomMember(_)));
        base.seed_hists.push(sb.done());
        let mut sb = SeedBuilder::new(&base);
        sb.ev(Ev::Apply(vec![al(id(B, 0))], true));
        sb.ev(Ev::Leave);
        base.seed_hists.push(sb.done());
    }
    // the only peer is suspected, its timeout outstanding (its Down leaves the
    // instance without anybody: the place where a failing call can leave the
    // connection state and the member list out of step)
    let mut sb = SeedBuilder::new(&base);
    sb.ev(Ev::Apply(vec![al(id(B, 0))], true));
    sb.fire(|t| matches!(t, TimerKey::ProbeRandomMember(_)));
    sb.fire(|t| matches!(t, TimerKey::SendIndirectProbe { .. }));
    sb.fire(|t| matches!(t, TimerKey::ProbeRandomMember(_)));
    base.seed_hists.push(sb.done());
    if fail_down {
        // the remaining seeds need calls that succeed
        return HostileSpec { base, emitted: Mutex::new(HashSet::new()) };
    }
    // user error: the instance took over the identity of its only peer, which
    // is now an active member of its own list, and is mid-probe on it
    let mut sb = SeedBuilder::new(&base);
    sb.ev(Ev::Apply(vec![al(id(B, 0))], true));
    sb.ev(Ev::ChangeId(id(B, 0)));
    // another member brings it back online; probe rounds until the round
    // that picks the instance's own identity is past its indirect stage
    sb.ev(Ev::Apply(vec![al(id(C, 0))], false));
    for _ in 0..4 {
        // (the most recently scheduled timers: the earlier ones are stale)
        let Some(t) = sb.timers.iter().rev().find(|t| matches!(t, TimerKey::ProbeRandomMember(_))).copied() else { break };
        sb.ev(Ev::Timer(t));
        let snap = sb.f.verif_snapshot();
        let Some(target) = snap.probe_target else { break };
        let own = *target.id() == *sb.f.identity();
        if !own {
            let me = *sb.f.identity();
            let ack = dgram(&sb.codec, *target.id(), target.incarnation(), me, Message::Ack(snap.probe_number), None, &[]);
            sb.ev(Ev::Data(ack));
        }
        if let Some(t) = sb.timers.iter().rev().find(|t| matches!(t, TimerKey::SendIndirectProbe { .. })).copied() {
            sb.ev(Ev::Timer(t));
        }
        if own {
            break;
        }
    }
    base.seed_hists.push(sb.done());
    // the probe cursor parked past the end of the member list (a pass that
    // wrapped around a trailing Down record), that record about to be
    // forgotten: then somebody new shows up
    let mut sb = SeedBuilder::new(&base);
    sb.ev(Ev::Apply(vec![al(id(B, 0)), mm(id(C, 0), 0, State::Down)], true));
    sb.age_probe_number(2);
    base.seed_hists.push(sb.done());
    let mut sb = SeedBuilder::new(&base);
    sb.ev(Ev::Apply(vec![mm(id(C, 0), 0, State::Down), al(id(B, 0))], true));
    sb.age_probe_number(3);
    base.seed_hists.push(sb.done());
    // long-lived instances: timer token about to wrap (active / defunct)
    // (quick tier: only the defunct one, a single call away from the wrap)
    let quick = std::env::var("VERIF_C06_TIER").map(|t| t != "thorough").unwrap_or(false);
    for target in if quick { vec![255u8] } else { vec![254u8, 255] } {
        let mut sb = SeedBuilder::new(&base);
        sb.ev(Ev::Apply(vec![al(id(B, 0)), al(id(C, 0))], true));
        sb.age_token(target);
        base.seed_hists.push(sb.done());
    }
    HostileSpec { base, emitted: Mutex::new(HashSet::new()) }
}

/// Mutations of one valid datagram.
fn mutations(d: &[u8]) -> Vec<Vec<u8>> {
    let mut v = Vec::new();
    for k in 0..d.len() {
        v.push(d[..k].to_vec());
    }
    for k in 0..d.len() {
        // 0xfb..0xfe: bincode's varint markers for wider integers
        for b in [0u8, 1, 0x7f, 0x80, 0xfb, 0xfc, 0xfd, 0xfe, 0xff] {
            if d[k] != b {
                let mut m = d.to_vec();
                m[k] = b;
                v.push(m);
            }
        }
    }
    let mut m = d.to_vec();
    m.push(0);
    v.push(m);
    let mut m = d.to_vec();
    m.extend_from_slice(&[0xff, 0xff, 1]);
    v.push(m);
    v
}

/// Byte-level sweep against FixCodec instances (fixed / variable ids).
fn byte_level_fix(datagrams: &[Vec<u8>], thorough: bool, var: bool) -> (u64, u64, Option<String>) {
    let codec = FixCodec { var, ..FixCodec::default() };
    let cfg = Cfg { notify_down: true, max_packet: 64, ..Cfg::default() };
    let handler = || {
        let mut h = TableHandler::new(InvMode::NewerVersion);
        h.accept_all = true;
        h
    };
    // receivers: fresh, formed, defunct
    let mk = |me: Id| {
        let fresh = new_foca(me, &cfg, codec, handler());
        let mut formed = fresh.clone();
        run_event(&mut formed, &Ev::Apply(vec![al(id(B, 0)), al(id(C, 0)), mm(id(D, 0), 0, State::Down)], true), &[0, 0, 0]);
        let mut defunct = formed.clone();
        run_event(&mut defunct, &Ev::Leave, &[0, 0]);
        [fresh, formed, defunct]
    };
    let receivers = mk(id(A, 1).with(Renew::Next));
    let mut inputs: Vec<Vec<u8>> = Vec::new();
    for d in datagrams {
        inputs.extend(mutations(d));
    }
    // all byte strings of length <= 2 (<= 3 thorough)
    inputs.push(vec![]);
    for a in 0..=255u8 {
        inputs.push(vec![a]);
        for b in 0..=255u8 {
            inputs.push(vec![a, b]);
        }
    }
    for n in [63usize, 64, 65, 65_537] {
        inputs.push(vec![0xA5; n]);
        let mut d = dgram(&codec, id(B, 0), 0, id(A, 1), Message::Gossip, Some(&[]), &[]);
        d.resize(n, 0);
        inputs.push(d);
    }
    let distinct: HashSet<&Vec<u8>> = inputs.iter().collect();
    let n_distinct = distinct.len() as u64;
    let run = |bytes: &[u8]| -> Option<String> {
        for r in &receivers {
            let mut c = r.clone();
            let out = run_event(&mut c, &Ev::Data(bytes.to_vec()), &[0, 0, 0, 0]);
            if let Some(p) = out.panic {
                return Some(format!("handle_data({:02x?}) panicked: {p} [receiver {}]", bytes, View::of(r).show()));
            }
        }
        None
    };
    let bad = inputs.par_iter().find_map_first(|b| run(b));
    let mut evals = inputs.len() as u64 * 3;
    let mut bad = bad;
    if thorough && bad.is_none() {
        // all 3-byte strings
        let b3 = (0..=255u8).into_par_iter().find_map_first(|a| {
            for b in 0..=255u8 {
                for c in 0..=255u8 {
                    if let Some(e) = run(&[a, b, c]) {
                        return Some(e);
                    }
                }
            }
            None
        });
        evals += 3 * (1 << 24);
        bad = b3;
    }
    (evals, n_distinct, bad)
}

/// Byte-level sweep for a serde wire format through a real generic Foca.
/// Returns (evaluations, distinct inputs, first panic, inputs skipped
/// because the limited decoder reports an unbounded length prefix).
fn byte_level_generic<T, C, W>(label: &str, codec: C, wire: W, ident: fn(usize) -> T) -> (u64, u64, Option<String>, Vec<Vec<u8>>)
where
    T: Identity + Clone + Debug + Eq + Send + Sync,
    T::Addr: Clone + Send + Sync,
    C: Codec<T> + Clone + Send + Sync,
    C::Error: std::error::Error,
    W: Wire<T>,
{
    let cfg = Cfg { notify_down: true, max_packet: 96, ..Cfg::default() };
    let me = ident(0);
    let mk = |who: T| -> GF<T, C> { Foca::with_custom_broadcast(who, cfg.to_config(), ChoiceRng::new(), codec.clone(), AcceptAll::default()) };
    // seed datagrams from a real sender
    let mut sender = mk(ident(1));
    let mut rt = GRuntime::<T>::default();
    let _ = sender.apply_many([Member::alive(me.clone()), Member::new(ident(2), 3, State::Suspect), Member::new(ident(3), 0, State::Down)].into_iter(), true, &mut rt);
    let _ = sender.add_broadcast(&[7, 7, 7]);
    rt.log.clear();
    let _ = sender.announce(me.clone(), &mut rt);
    let _ = sender.gossip(&mut rt);
    let _ = sender.broadcast(&mut rt);
    for t in rt.timers().cloned().collect::<Vec<_>>() {
        let _ = sender.handle_timer(t, &mut rt);
    }
    let mut c2 = codec.clone();
    for msg in [Message::Ping(1), Message::PingReq { target: ident(2), probe_number: 2 }, Message::IndirectAck { target: ident(2), probe_number: 250 }, Message::Feed, Message::TurnUndead] {
        let mut v = Vec::new();
        let _ = c2.encode_header(&foca::Header { src: ident(1), src_incarnation: 300, dst: me.clone(), message: msg }, &mut v);
        rt.log.push(GEffect::Send(me.clone(), v));
    }
    let seeds: Vec<Vec<u8>> = rt.sends().filter(|(to, _)| **to == me).map(|(_, d)| d.clone()).collect();
    let mut inputs: Vec<Vec<u8>> = Vec::new();
    for d in &seeds {
        inputs.push(d.clone());
        inputs.extend(mutations(d));
    }
    inputs.push(vec![]);
    for a in 0..=255u8 {
        inputs.push(vec![a]);
        for b in 0..=255u8 {
            inputs.push(vec![a, b]);
        }
    }
    inputs.push(vec![0xff; 95]);
    inputs.push(vec![0xff; 97]);
    inputs.push(vec![0x80; 65_537]);
    let distinct: HashSet<&Vec<u8>> = inputs.iter().collect();
    let n_distinct = distinct.len() as u64;
    let fresh = mk(me.clone());
    let mut formed = mk(me.clone());
    let mut rt2 = GRuntime::<T>::default();
    let _ = formed.apply_many([Member::alive(ident(1)), Member::alive(ident(2))].into_iter(), true, &mut rt2);
    let receivers = [fresh, formed];
    let results: Vec<(Option<String>, Option<Vec<u8>>)> = inputs
        .par_iter()
        .map(|bytes| {
            // guard: an input whose length prefix makes an unlimited decoder
            // allocate without bound is not run in-process
            if let Err(e) = g_parse(&wire, bytes) {
                if e.contains("LimitExceeded") || e.contains("limit") {
                    return (None, Some(bytes.clone()));
                }
            }
            for r in &receivers {
                let mut c = r.clone();
                let mut rt = GRuntime::<T>::default();
                if let Err(p) = guarded(&mut c, |f| f.handle_data(bytes, &mut rt)) {
                    return (Some(format!("[{label}] handle_data({:02x?}) panicked: {p}", bytes)), None);
                }
            }
            (None, None)
        })
        .collect();
    let mut bad = None;
    let mut skipped = Vec::new();
    for (b, s) in results {
        if bad.is_none() {
            bad = b;
        }
        if let Some(s) = s {
            skipped.push(s);
        }
    }
    (inputs.len() as u64 * 2, n_distinct, bad, skipped)
}

fn s_ident(k: usize) -> SId {
    SId { a: k as u64 + 1, s: "id".repeat(k % 3) }
}
fn n_ident(k: usize) -> NId {
    NId { a: k as u64 + 1, g: 0 }
}

/// Child mode: feed one datagram to a real Foca using
/// BincodeCodec(standard()) with a String identity. If bincode allocates the
/// claimed length up front the process aborts.
pub fn abort_demo(hex: &str) -> i32 {
    let bytes: Vec<u8> = (0..hex.len() / 2).filter_map(|i| u8::from_str_radix(&hex[2 * i..2 * i + 2], 16).ok()).collect();
    let cfg = Cfg { max_packet: 96, ..Cfg::default() };
    let mut f: GF<SId, _> = Foca::with_custom_broadcast(s_ident(0), cfg.to_config(), ChoiceRng::new(), foca::BincodeCodec(bincode::config::standard()), AcceptAll::default());
    let mut rt = GRuntime::<SId>::default();
    let r = f.handle_data(&bytes, &mut rt);
    println!("returned {:?}", r.map_err(|e| e.to_string()));
    0
}

/// Config constructors for every cluster size in `range`.
fn config_constructors(thorough: bool) -> (u64, Option<String>) {
    let try_one = |n: u32| -> Option<String> {
        let Some(nz) = NonZeroU32::new(n) else { return None };
        let r = std::panic::catch_unwind(|| {
            let a = foca::Config::new_lan(nz);
            let b = foca::Config::new_wan(nz);
            (a.max_transmissions.get(), b.suspect_to_down_after)
        });
        match r {
            Ok(_) => None,
            Err(_) => Some(format!("Config::new_lan/new_wan({n}) panicked: {}", take_last_panic().unwrap_or_default())),
        }
    };
    if thorough {
        let bad = (0u32..=(u32::MAX >> 12)).into_par_iter().find_map_first(|hi| {
            for lo in 0..(1u32 << 12) {
                if let Some(e) = try_one((hi << 12) | lo) {
                    return Some(e);
                }
            }
            None
        });
        (2 * (u32::MAX as u64), bad)
    } else {
        let mut vals: Vec<u32> = (1..=(1u32 << 20)).collect();
        for k in 0..32 {
            let p = 1u32 << k;
            vals.extend([p.wrapping_sub(1), p, p.wrapping_add(1)]);
        }
        let mut t: u64 = 1;
        while t < u32::MAX as u64 {
            vals.extend([(t - 1) as u32, t as u32, (t + 1) as u32]);
            t *= 10;
        }
        vals.extend([u32::MAX, u32::MAX - 1]);
        let bad = vals.par_iter().find_map_first(|n| try_one(*n));
        (2 * vals.len() as u64, bad)
    }
}

pub fn c06(tier: &str) -> Report {
    let th = tier == "thorough";
    let plain_pass = std::env::var("VERIF_PLAIN_PASS").is_ok();
    // the plain-profile pass (no debug assertions) runs as a child process
    // AFTER this one (running both at once was tried: two 16-thread
    // explorations side by side take longer than one after the other)
    let mut plain_child: Option<std::process::Child> = None;
    let mut rep = Report::new("C06", tier, "model_checking");
    let words = calibrated(&mut rep, 4, 3);
    // (a) hostile exploration
    std::env::set_var("VERIF_C06_TIER", tier);
    let spec = hostile_spec(&words);
    // quick: the plain-release pass explores one level less (it exists to
    // compare builds and to catch what only shows without debug assertions)
    let lim = if th {
        Limits { max_depth: 4, seed_depth: 4, max_states: 12_000_000, max_wall_s: 900.0 }
    } else if plain_pass {
        Limits { max_depth: 2, seed_depth: 2, max_states: 3_000_000, max_wall_s: 60.0 }
    } else {
        Limits { max_depth: 3, seed_depth: 2, max_states: 3_000_000, max_wall_s: 60.0 }
    };
    let (stats, found) = explore(&spec, &lim);
    rep.states = stats.states;
    rep.transitions = stats.transitions;
    for s in stats.samples.iter().take(3) {
        rep.sample(json!({"hostile_history": s}));
    }
    for f in found.iter().take(40) {
        let shown: Vec<String> = f.history.iter().map(|s| format!("{}  rng={:?}", show_ev(&spec.base.codec, &s.ev), s.script)).collect();
        // signature: panic site, so distinct panics are distinct findings
        let sig = if f.viol.signature == "panic" {
            let site = f.viol.what.rsplit(" at ").next().unwrap_or("?").to_string();
            format!("c06:panic:{site}")
        } else {
            f.viol.signature.clone()
        };
        rep.violate(&sig, format!("{} [after: {}]", f.viol.what, shown.join(" ; ")), json!({"engine": "e1", "property": "C06", "tier": tier, "variant": "c06-hostile", "history": f.history, "shown": shown}));
    }
    // (a2) the same exploration with a codec that fails (an error, never a
    // panic) on every Down member it is asked to encode: calls may report
    // the error, nothing may panic then or afterwards
    if !plain_pass {
        let faulty = hostile_spec_with(&words, true);
        let lim2 = if th { Limits { max_depth: 4, seed_depth: 4, max_states: 3_000_000, max_wall_s: 300.0 } } else { Limits { max_depth: 2, seed_depth: 2, max_states: 1_000_000, max_wall_s: 60.0 } };
        let (st2, found2) = explore(&faulty, &lim2);
        rep.states += st2.states;
        rep.transitions += st2.transitions;
        let others: std::collections::BTreeSet<String> = found2.iter().filter(|f| f.viol.signature != "panic").map(|f| f.viol.signature.clone()).collect();
        rep.set("failing_codec_exploration", json!({"states": st2.states, "transitions": st2.transitions, "depth_completed": st2.depth_completed, "cap_hit": st2.capped, "non_panic_findings_ignored_here": others}));
        for f in found2.iter().filter(|f| f.viol.signature == "panic").take(10) {
            let shown: Vec<String> = f.history.iter().map(|s| format!("{}  rng={:?}", show_ev(&faulty.base.codec, &s.ev), s.script)).collect();
            let site = f.viol.what.rsplit(" at ").next().unwrap_or("?").to_string();
            rep.violate(&format!("c06:panic-after-codec-error:{site}"), format!("{} [codec fails on Down members; after: {}]", f.viol.what, shown.join(" ; ")), json!({"engine": "e1", "property": "C06", "tier": tier, "variant": "c06-hostile-failing-codec", "history": f.history, "shown": shown}));
        }
    }
    let emitted: Vec<Vec<u8>> = {
        let g = spec.emitted.lock().unwrap();
        let mut v: Vec<Vec<u8>> = g.iter().cloned().collect();
        v.sort();
        v.truncate(if th { 20_000 } else if plain_pass { 800 } else { 2_500 });
        v
    };
    // (b) byte level
    let mut byte_level = Vec::new();
    let mut evals = 0u64;
    let mut distinct = 0u64;
    for var in [false, true] {
        if var && plain_pass && !th {
            // quick tier: the plain build repeats the fixed-length format only
            continue;
        }
        let (e, d, bad) = byte_level_fix(&emitted, th, var);
        evals += e;
        distinct += d;
        byte_level.push(json!({"wire": if var { "fixcodec-variable" } else { "fixcodec" }, "inputs_x_receivers": e, "distinct_inputs": d}));
        if let Some(b) = bad {
            rep.violate("c06:panic:byte-level", b, json!({"engine": "byte-level"}));
        }
    }
    let f11_candidates: Vec<Vec<u8>>;
    {
        let (e, d, bad, sk) = byte_level_generic("postcard/String-identity", foca::PostcardCodec, PostcardWire, s_ident);
        evals += e;
        distinct += d;
        byte_level.push(json!({"wire": "postcard, String identity", "inputs_x_receivers": e, "distinct_inputs": d, "skipped": sk.len()}));
        if let Some(b) = bad {
            rep.violate("c06:panic:byte-level", b, json!({"engine": "byte-level"}));
        }
        let (e, d, bad, sk) = byte_level_generic("bincode/integer-identity", foca::BincodeCodec(bincode::config::standard()), BincodeWire, n_ident);
        evals += e;
        distinct += d;
        byte_level.push(json!({"wire": "bincode standard(), integer identity", "inputs_x_receivers": e, "distinct_inputs": d, "skipped_unbounded_length_prefix": sk.len()}));
        if let Some(b) = bad {
            rep.violate("c06:panic:byte-level", b, json!({"engine": "byte-level"}));
        }
        if let Some(s) = sk.first() {
            rep.violate("c06:bincode-integer-identity-length-prefix", format!("bincode with an integer-only identity hit a length limit on {:02x?}", s), json!({"engine": "byte-level"}));
        }
        let (e, d, bad, sk) = byte_level_generic("bincode/String-identity", foca::BincodeCodec(bincode::config::standard()), BincodeWire, s_ident);
        evals += e;
        distinct += d;
        byte_level.push(json!({"wire": "bincode standard(), String identity", "inputs_x_receivers": e, "distinct_inputs": d, "not_run_in_process_unbounded_length_prefix": sk.len()}));
        if let Some(b) = bad {
            rep.violate("c06:panic:byte-level", b, json!({"engine": "byte-level"}));
        }
        f11_candidates = sk;
    }
    // demonstrate the abort in a child process (never in-process)
    if !plain_pass {
        let mut demo = Vec::new();
        if let Ok(exe) = std::env::current_exe() {
            // try the widest length markers first (0xfd = u64 length follows)
            let mut cands = f11_candidates.clone();
            cands.sort_by_key(|c| std::cmp::Reverse(crate::c20::claimed_len(c)));
            for c in cands.iter().take(6) {
                let hex: String = c.iter().map(|b| format!("{b:02x}")).collect();
                if let Ok(o) = std::process::Command::new(&exe).args(["abort-demo", &hex]).env("RUST_BACKTRACE", "0").output() {
                    let stderr = String::from_utf8_lossy(&o.stderr).to_string();
                    let first = stderr.lines().next().unwrap_or("").to_string();
                    // abort on allocation failure, or "capacity overflow" panic
                    // for lengths near u64::MAX: the same defect
                    let aborted = !o.status.success();
                    demo.push(json!({"input": hex, "child_status": format!("{:?}", o.status), "stderr": first}));
                    if aborted {
                        rep.violate(
                            "bincode-unbounded-length-prefix",
                            format!("Foca<String-identity, BincodeCodec(standard())>::handle_data({hex}) aborts the process: {first}"),
                            json!({"engine": "child-process", "cmd": format!("verif abort-demo {hex}")}),
                        );
                        break;
                    }
                }
            }
        }
        rep.set("bincode_string_identity_abort_demo", json!(demo));
    }
    // (c) configuration constructors
    let (ce, cbad) = config_constructors(th);
    evals += ce;
    if let Some(b) = cbad {
        rep.violate("c06:panic:config-constructor", b, json!({"engine": "config-sweep"}));
    }
    rep.evaluations = evals + stats.transitions;
    rep.distinct_nontrivial = distinct + stats.states;
    rep.set("hostile_exploration", json!({"states": stats.states, "transitions": stats.transitions, "depth_completed": stats.depth_completed, "cap_hit": stats.capped, "per_depth": stats.per_depth.iter().map(|(d, s, t)| json!([d, s, t])).collect::<Vec<_>>(), "distinct_datagrams_emitted_and_mutated": emitted.len()}));
    rep.set("byte_level", json!(byte_level));
    rep.set("config_constructor_calls", json!(ce));
    rep.exhaustive = stats.capped.is_none();
    rep.rule = "hostile E1 exploration (BFS, exact dedup, all RNG answers) + every truncation/substitution/extension of every distinct emitted datagram and all byte strings of length <=2 (<=3 thorough) against three receiver states and four wire formats + Config::new_lan/new_wan over the stated range; no-panic oracle via catch_unwind, grammar oracle on every emitted datagram".into();
    // plain release build must agree
    if plain_pass {
        println!("PLAIN-SUMMARY {}", json!({"states": stats.states, "transitions": stats.transitions, "per_depth": stats.per_depth.iter().map(|(d, s, t)| json!([d, s, t])).collect::<Vec<_>>(), "violations": rep.violations.iter().map(|v| v.signature.clone()).collect::<Vec<_>>(), "whats": rep.violations.iter().map(|v| v.what.clone()).take(3).collect::<Vec<_>>()}));
    } else if let Ok(exe) = std::env::current_exe() {
        let plain = exe.parent().and_then(|p| p.parent()).map(|p| p.join("plain").join("verif"));
        match plain {
            Some(p) if p.exists() => {
                // (started at the beginning of this check, runs alongside it)
                let o = match plain_child.take() {
                    Some(c) => c.wait_with_output(),
                    None => std::process::Command::new(&p).args(["check", "C06", "--tier", tier]).env("VERIF_PLAIN_PASS", "1").output(),
                };
                match o {
                    Ok(o) => {
                        let out = String::from_utf8_lossy(&o.stdout).to_string();
                        let line = out.lines().find(|l| l.starts_with("PLAIN-SUMMARY ")).map(|l| l["PLAIN-SUMMARY ".len()..].to_string());
                        match line.and_then(|l| serde_json::from_str::<serde_json::Value>(&l).ok()) {
                            Some(v) => {
                                rep.set("plain_release_build", v.clone());
                                for (i, s) in v["violations"].as_array().cloned().unwrap_or_default().iter().enumerate() {
                                    let sig = format!("plain-build:{}", s.as_str().unwrap_or("?"));
                                    rep.violate(&sig, format!("in the plain release build (no debug assertions): {}", v["whats"].get(i).and_then(|x| x.as_str()).unwrap_or("")), json!({"engine": "plain-build"}));
                                }
                                // level by level, as deep as the plain pass went
                                let mine: Vec<serde_json::Value> = stats.per_depth.iter().map(|(d, s, t)| json!([d, s, t])).collect();
                                let theirs = v["per_depth"].as_array().cloned().unwrap_or_default();
                                let k = theirs.len().min(mine.len());
                                if rep.violations.is_empty() && (k == 0 || mine[..k] != theirs[..k]) {
                                    rep.violate("c06:builds-disagree", format!("debug-assertion build explored {:?} (depth, new states, transitions), plain release build {:?}", &mine[..k], &theirs[..k]), json!({"engine": "plain-build"}));
                                }
                            }
                            None => rep.machinery(format!("plain-profile run produced no summary (status {:?})", o.status)),
                        }
                    }
                    Err(e) => rep.machinery(format!("cannot run the plain-profile binary: {e}")),
                }
            }
            _ => rep.machinery("plain-profile binary not built (expected target/plain/verif; ./check C06 builds it)".into()),
        }
    }
    rep.assume("user-supplied Codec, Runtime, BroadcastHandler and Identity doubles never panic");
    rep.assume("allocation failure aborts are attributed via a child process, never run in-process");
    rep
}
