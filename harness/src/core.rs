//! The subject under test and the vocabulary every engine shares: the
//! concrete `Foca` type, environment events, running one event on the real
//! code with a scripted RNG, and the public-API view of an instance.
use crate::doubles::*;
use crate::rng::ChoiceRng;
use foca::{Config, Error, Foca, Header, Member, Message, PeriodicParams, State};
use std::hash::Hash;
use std::num::{NonZeroU8, NonZeroUsize};
use std::panic::{catch_unwind, AssertUnwindSafe};
use std::time::Duration;

pub type F = Foca<Id, FixCodec, ChoiceRng, TableHandler>;

/// Plain-data configuration (ticks are milliseconds).
#[derive(Clone, Debug, PartialEq, Eq, Hash, serde::Serialize, serde::Deserialize)]
pub struct Cfg {
    pub probe_period: u64,
    pub probe_rtt: u64,
    pub fanout: usize,
    pub max_tx: u8,
    pub suspect_to_down: u64,
    pub remove_down: u64,
    pub max_packet: usize,
    pub notify_down: bool,
    pub announce: Option<(u64, usize)>,
    pub announce_down: Option<(u64, usize)>,
    pub gossip: Option<(u64, usize)>,
}

impl Default for Cfg {
    fn default() -> Self {
        Cfg {
            probe_period: 100,
            probe_rtt: 40,
            fanout: 3,
            max_tx: 3,
            suspect_to_down: 300,
            remove_down: 100_000,
            max_packet: 1400,
            notify_down: false,
            announce: None,
            announce_down: None,
            gossip: None,
        }
    }
}

impl Cfg {
    pub fn to_config(&self) -> Config {
        let pp = |p: &Option<(u64, usize)>| {
            p.map(|(f, n)| PeriodicParams {
                frequency: Duration::from_millis(f),
                num_members: NonZeroUsize::new(n.max(1)).unwrap(),
            })
        };
        Config {
            probe_period: Duration::from_millis(self.probe_period),
            probe_rtt: Duration::from_millis(self.probe_rtt),
            num_indirect_probes: NonZeroUsize::new(self.fanout.max(1)).unwrap(),
            max_transmissions: NonZeroU8::new(self.max_tx.max(1)).unwrap(),
            suspect_to_down_after: Duration::from_millis(self.suspect_to_down),
            remove_down_after: Duration::from_millis(self.remove_down),
            max_packet_size: NonZeroUsize::new(self.max_packet.max(1)).unwrap(),
            notify_down_members: self.notify_down,
            periodic_announce: pp(&self.announce),
            periodic_announce_to_down_members: pp(&self.announce_down),
            periodic_gossip: pp(&self.gossip),
        }
    }
}

pub fn new_foca(me: Id, cfg: &Cfg, codec: FixCodec, handler: TableHandler) -> F {
    Foca::with_custom_broadcast(me, cfg.to_config(), ChoiceRng::new(), codec, handler)
}

/// One environment event = one public call.
#[derive(Clone, Debug, PartialEq, Eq, Hash, serde::Serialize, serde::Deserialize)]
pub enum Ev {
    Data(Vec<u8>),
    Timer(TimerKey),
    Apply(Vec<Member<Id>>, bool),
    Announce(Id),
    Gossip,
    Broadcast,
    Leave,
    ChangeId(Id),
    Reuse,
    SetConfig(Box<Cfg>),
    AddBroadcast(Vec<u8>),
    /// harness-only: time passes, nothing is called
    Sleep(i64),
}

#[derive(Clone, Copy, Debug, PartialEq, Eq, Hash, PartialOrd, Ord)]
pub enum ErrKind {
    DataTooBig,
    NotUndead,
    SameIdentity,
    NotConnected,
    IncompleteProbeCycle,
    DataFromOurselves,
    IndirectForOurselves,
    MalformedPacket,
    Encode,
    Decode,
    CustomBroadcast,
    InvalidConfig,
}

impl From<&Error> for ErrKind {
    fn from(e: &Error) -> Self {
        match e {
            Error::DataTooBig => ErrKind::DataTooBig,
            Error::NotUndead => ErrKind::NotUndead,
            Error::SameIdentity => ErrKind::SameIdentity,
            Error::NotConnected => ErrKind::NotConnected,
            Error::IncompleteProbeCycle => ErrKind::IncompleteProbeCycle,
            Error::DataFromOurselves => ErrKind::DataFromOurselves,
            Error::IndirectForOurselves => ErrKind::IndirectForOurselves,
            Error::MalformedPacket => ErrKind::MalformedPacket,
            Error::Encode(_) => ErrKind::Encode,
            Error::Decode(_) => ErrKind::Decode,
            Error::CustomBroadcast(_) => ErrKind::CustomBroadcast,
            Error::InvalidConfig => ErrKind::InvalidConfig,
        }
    }
}

#[derive(Clone, Copy, Debug, PartialEq, Eq, Hash)]
pub enum Res {
    Ok,
    OkBool(bool),
    Err(ErrKind),
}

impl Res {
    pub fn is_ok(&self) -> bool {
        !matches!(self, Res::Err(_))
    }
}

#[derive(Clone, Debug)]
pub struct StepOut {
    pub effects: Vec<Effect>,
    pub res: Res,
    /// number of 32-bit draws the call made
    pub draws: usize,
    /// draws beyond the supplied script (answered with the default word)
    pub extra_draws: usize,
    pub wide_draw: bool,
    pub panic: Option<String>,
}

impl StepOut {
    pub fn sends(&self) -> impl Iterator<Item = (&Id, &Vec<u8>)> {
        self.effects.iter().filter_map(|e| match e {
            Effect::Send { to, data } => Some((to, data)),
            _ => None,
        })
    }
    pub fn notes(&self) -> impl Iterator<Item = &foca::OwnedNotification<Id>> {
        self.effects.iter().filter_map(|e| match e {
            Effect::Note(n) => Some(n),
            _ => None,
        })
    }
    pub fn timers(&self) -> impl Iterator<Item = (Duration, TimerKey)> + '_ {
        self.effects.iter().filter_map(|e| match e {
            Effect::Timer { after, timer } => Some((*after, TimerKey::from(timer))),
            _ => None,
        })
    }
    pub fn has_note(&self, n: &foca::OwnedNotification<Id>) -> bool {
        self.notes().any(|x| x == n)
    }
}

/// Set when Foca drew randomness through anything but `next_u32`.
pub static WIDE_DRAWS_SEEN: std::sync::atomic::AtomicBool = std::sync::atomic::AtomicBool::new(false);

thread_local! {
    static LAST_PANIC: std::cell::RefCell<Option<String>> = const { std::cell::RefCell::new(None) };
}

/// Install a panic hook that records the message (with location) instead of
/// printing; call once per process.
pub fn install_quiet_panic_hook() {
    std::panic::set_hook(Box::new(|info| {
        let msg = if let Some(s) = info.payload().downcast_ref::<&str>() {
            s.to_string()
        } else if let Some(s) = info.payload().downcast_ref::<String>() {
            s.clone()
        } else {
            "<non-string panic>".to_string()
        };
        let loc = info.location().map(|l| format!(" at {}:{}", l.file(), l.line())).unwrap_or_default();
        LAST_PANIC.with(|p| *p.borrow_mut() = Some(format!("{msg}{loc}")));
    }));
}

pub fn take_last_panic() -> Option<String> {
    LAST_PANIC.with(|p| p.borrow_mut().take())
}

fn res_of(r: Result<(), Error>) -> Res {
    match r {
        Ok(()) => Res::Ok,
        Err(e) => Res::Err(ErrKind::from(&e)),
    }
}

/// Run one event on the real code. The RNG answers from `script`, then with
/// the default word. Never unwinds: a panic inside Foca is caught and
/// reported in `StepOut::panic` (the instance must then be discarded).
pub fn run_event(f: &mut F, ev: &Ev, script: &[u32]) -> StepOut {
    f.verif_rng_mut().load(script);
    let mut rt = RecRuntime::default();
    let r = catch_unwind(AssertUnwindSafe(|| match ev {
        Ev::Data(d) => res_of(f.handle_data(d, &mut rt)),
        Ev::Timer(t) => res_of(f.handle_timer(t.to_timer(), &mut rt)),
        Ev::Apply(ms, b) => res_of(f.apply_many(ms.iter().cloned(), *b, &mut rt)),
        Ev::Announce(d) => res_of(f.announce(*d, &mut rt)),
        Ev::Gossip => res_of(f.gossip(&mut rt)),
        Ev::Broadcast => res_of(f.broadcast(&mut rt)),
        Ev::Leave => res_of(f.leave_cluster(&mut rt)),
        Ev::ChangeId(n) => res_of(f.change_identity(*n, &mut rt)),
        Ev::Reuse => res_of(f.reuse_down_identity()),
        Ev::SetConfig(c) => res_of(f.set_config(c.to_config())),
        Ev::AddBroadcast(d) => match f.add_broadcast(d) {
            Ok(b) => Res::OkBool(b),
            Err(e) => Res::Err(ErrKind::from(&e)),
        },
        Ev::Sleep(_) => Res::Ok,
    }));
    let (res, panic) = match r {
        Ok(res) => (res, None),
        Err(_) => (Res::Ok, Some(take_last_panic().unwrap_or_else(|| "panic".into()))),
    };
    let rng = f.verif_rng_mut();
    if rng.wide {
        // draws other than next_u32: still answered from the script word by
        // word, but the calibrated menu no longer guarantees every outcome
        WIDE_DRAWS_SEEN.store(true, std::sync::atomic::Ordering::Relaxed);
    }
    let out = StepOut {
        effects: rt.log,
        res,
        draws: rng.draws(),
        extra_draws: rng.extra,
        wide_draw: rng.wide,
        panic,
    };
    rng.reset();
    out
}

/// What the public getters show.
#[derive(Clone, Debug, PartialEq, Eq, Hash)]
pub struct View {
    pub id: Id,
    pub members: Vec<Member<Id>>,
    pub active: Vec<Id>,
    pub num_members: usize,
    pub updates_backlog: usize,
    pub custom_backlog: usize,
}

impl View {
    pub fn of(f: &F) -> View {
        View {
            id: *f.identity(),
            members: f.iter_membership_state().cloned().collect(),
            active: f.iter_members().map(|m| *m.id()).collect(),
            num_members: f.num_members(),
            updates_backlog: f.updates_backlog(),
            custom_backlog: f.custom_broadcast_backlog(),
        }
    }
    pub fn record_at(&self, addr: u8) -> Option<&Member<Id>> {
        self.members.iter().find(|m| m.id().addr == addr)
    }
    pub fn record_of(&self, i: &Id) -> Option<&Member<Id>> {
        self.members.iter().find(|m| m.id() == i)
    }
    pub fn is_active(&self, i: &Id) -> bool {
        self.record_of(i).is_some_and(|m| m.state() != State::Down)
    }
    pub fn show(&self) -> String {
        let ms: Vec<String> = self.members.iter().map(show_member).collect();
        format!("me={} members=[{}] backlog={}/{}", self.id.show(), ms.join(" "), self.updates_backlog, self.custom_backlog)
    }
}

/// Build a datagram from structured values with the given codec.
pub fn dgram(
    codec: &FixCodec,
    src: Id,
    src_inc: u16,
    dst: Id,
    msg: Message<Id>,
    updates: Option<&[Member<Id>]>,
    items: &[&[u8]],
) -> Vec<u8> {
    let mut v = codec.header_bytes(&Header { src, src_incarnation: src_inc, dst, message: msg });
    if let Some(us) = updates {
        v.extend_from_slice(&(us.len() as u16).to_be_bytes());
        for m in us {
            v.extend_from_slice(&codec.member_bytes(m));
        }
    }
    for it in items {
        v.extend_from_slice(&(it.len() as u16).to_be_bytes());
        v.extend_from_slice(it);
    }
    v
}

pub fn m(i: Id, inc: u16, st: State) -> Member<Id> {
    Member::new(i, inc, st)
}

pub fn show_msg(msg: &Message<Id>) -> String {
    match msg {
        Message::Ping(n) => format!("Ping({n})"),
        Message::Ack(n) => format!("Ack({n})"),
        Message::PingReq { target, probe_number } => format!("PingReq({},{})", target.show(), probe_number),
        Message::IndirectPing { origin, probe_number } => format!("IndirectPing({},{})", origin.show(), probe_number),
        Message::IndirectAck { target, probe_number } => format!("IndirectAck({},{})", target.show(), probe_number),
        Message::ForwardedAck { origin, probe_number } => format!("ForwardedAck({},{})", origin.show(), probe_number),
        Message::Announce => "Announce".into(),
        Message::Feed => "Feed".into(),
        Message::Gossip => "Gossip".into(),
        Message::Broadcast => "Broadcast".into(),
        Message::TurnUndead => "TurnUndead".into(),
    }
}

pub fn show_dgram(codec: &FixCodec, d: &[u8]) -> String {
    match crate::grammar::parse(codec, d) {
        Ok(p) => {
            let us = p
                .updates
                .as_ref()
                .map(|u| format!(" upd[{}]", u.iter().map(show_member).collect::<Vec<_>>().join(",")))
                .unwrap_or_default();
            let it = if p.items.is_empty() { String::new() } else { format!(" items{:?}", p.items) };
            format!(
                "{}@{}->{} {}{}{}",
                p.header.src.show(),
                p.header.src_incarnation,
                p.header.dst.show(),
                show_msg(&p.header.message),
                us,
                it
            )
        }
        Err(e) => format!("<unparsable {e}: {d:02x?}>"),
    }
}

pub fn show_ev(codec: &FixCodec, ev: &Ev) -> String {
    match ev {
        Ev::Data(d) => format!("handle_data[{}]", show_dgram(codec, d)),
        Ev::Timer(t) => format!("handle_timer[{}]", t.show()),
        Ev::Apply(ms, b) => format!(
            "apply_many[{}; broadcast={}]",
            ms.iter().map(show_member).collect::<Vec<_>>().join(","),
            b
        ),
        Ev::Announce(d) => format!("announce[{}]", d.show()),
        Ev::Gossip => "gossip".into(),
        Ev::Broadcast => "broadcast".into(),
        Ev::Leave => "leave_cluster".into(),
        Ev::ChangeId(n) => format!("change_identity[{}]", n.show()),
        Ev::Reuse => "reuse_down_identity".into(),
        Ev::SetConfig(c) => format!("set_config[{c:?}]"),
        Ev::AddBroadcast(d) if d.len() > 24 => format!("add_broadcast[{:?}.. ({} bytes)]", &d[..8], d.len()),
        Ev::AddBroadcast(d) => format!("add_broadcast[{d:?}]"),
        Ev::Sleep(s) => format!("sleep[{s}ms]"),
    }
}

pub fn show_effect(codec: &FixCodec, e: &Effect) -> String {
    match e {
        Effect::Send { to, data } => format!("send(to={}, {})", to.show(), show_dgram(codec, data)),
        Effect::Timer { after, timer } => format!("timer(+{}ms {})", after.as_millis(), TimerKey::from(timer).show()),
        Effect::Note(n) => format!("notify({})", show_note(n)),
    }
}

/// The snapshot without the scratch buffers, for oracles of the form "this
/// call changed nothing". Scratch buffers are part of the explorer's state
/// key (a leak through them must be explored) but what a call leaves in them
/// is not state a property speaks about: it becomes a violation only when a
/// later call lets it out, and that is judged where it comes out.
pub fn obs_snapshot(f: &F) -> foca::VerifSnapshot<Id> {
    let mut s = f.verif_snapshot();
    s.updates_buf_len = 0;
    s.updates_buf.clear();
    s.choice_buf.clear();
    s
}

pub fn hash128<T: Hash>(t: &T) -> u128 {
    use std::collections::hash_map::DefaultHasher;
    use std::hash::Hasher;
    let mut a = DefaultHasher::new();
    0x9e37_79b9_7f4a_7c15u64.hash(&mut a);
    t.hash(&mut a);
    let mut b = DefaultHasher::new();
    0xc2b2_ae3d_27d4_eb4fu64.hash(&mut b);
    t.hash(&mut b);
    ((a.finish() as u128) << 64) | b.finish() as u128
}
