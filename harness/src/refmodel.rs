//! Small, boring reference predictions shared by the E1 monitors. They
//! predict only what the properties state (see DESIGN.md 2.5): whether a
//! datagram is admitted, whether its sender counts as active, and which
//! "my own identity is dead" events a call contains.
use crate::core::*;
use crate::doubles::*;
use crate::grammar::{self, Parsed};
use foca::{Identity, Member, Message, State};

/// Connection state as inferred from the notification stream only.
#[derive(Clone, Copy, Debug, PartialEq, Eq, Hash)]
pub enum Conn {
    /// not active: fresh, after Idle, after an identity change / reuse
    Idle,
    Active,
    Defunct,
}

/// Read the instance's own (identity, incarnation) through the public API
/// only: the header of an `announce()` issued on a discarded clone.
pub fn observe_own(f: &F, codec: &FixCodec) -> Option<(Id, u16)> {
    let mut c = f.clone();
    let out = run_event(&mut c, &Ev::Announce(id(250, 0)), &[]);
    let (_, d) = out.sends().next()?;
    let h = codec.parse_header(&d[..]).ok()?;
    Some((h.src, h.src_incarnation))
}

/// Why a datagram is not admitted for processing (C17's rejection classes),
/// or the parsed datagram if it is.
#[derive(Clone, Debug, PartialEq, Eq)]
pub enum Admission {
    Rejected(ErrKind),
    /// silently dropped: not addressed to this instance
    NotForUs,
    Admitted(Parsed),
    /// header fine, admitted, but the member list / tail is malformed: Foca
    /// may have processed a prefix
    AdmittedMalformed,
}

pub fn admission(codec: &FixCodec, me: &Id, max_packet: usize, bytes: &[u8]) -> Admission {
    if bytes.len() > max_packet {
        return Admission::Rejected(ErrKind::DataTooBig);
    }
    let mut cur: &[u8] = bytes;
    let Ok(h) = codec.parse_header(&mut cur) else {
        return Admission::Rejected(ErrKind::Decode);
    };
    if h.src == *me || h.src.addr == me.addr {
        return Admission::Rejected(ErrKind::DataFromOurselves);
    }
    if cur.len() == 1 || (matches!(h.message, Message::Announce) && !cur.is_empty()) {
        return Admission::Rejected(ErrKind::MalformedPacket);
    }
    let for_us = h.dst == *me || (matches!(h.message, Message::Announce) && h.dst.addr == me.addr);
    if !for_us {
        return Admission::NotForUs;
    }
    match grammar::parse(codec, bytes) {
        Ok(p) => Admission::Admitted(p),
        Err(_) => Admission::AdmittedMalformed,
    }
}

/// Would `src` count as an active sender given the record the instance holds
/// at its address? (Unknown => registered Alive; same identity => active
/// unless Down; other identity => active iff it supersedes the record.)
pub fn sender_active(pre: &View, src: &Id) -> bool {
    match pre.record_at(src.addr) {
        None => true,
        Some(r) if r.id() == src => r.state() != State::Down,
        Some(r) => !r.id().win_addr_conflict(src),
    }
}

/// What a call's input means, computed once per step for all monitors.
#[derive(Clone, Debug, Default)]
pub struct InputInfo {
    /// the datagram, if the event is one and it is admitted and well-formed
    pub admitted: Option<Parsed>,
    /// any datagram event at all
    pub is_data: bool,
    /// admitted datagram whose sender counts as active
    pub sender_active: bool,
    /// updates that are walked in order (apply_many: all of them; datagram:
    /// its update section if admitted from an active sender)
    pub updates: Vec<Member<Id>>,
    /// every (identity, incarnation) the input mentions, accepted or not
    pub mentioned: Vec<(Id, u16)>,
    /// admitted TurnUndead message
    pub turn_undead: bool,
    pub admission: Option<Admission>,
}

pub fn analyse_input(codec: &FixCodec, pre: &View, max_packet: usize, ev: &Ev) -> InputInfo {
    let mut info = InputInfo::default();
    match ev {
        Ev::Apply(us, _) => {
            info.updates = us.clone();
            info.mentioned = us.iter().map(|u| (*u.id(), u.incarnation())).collect();
        }
        Ev::Data(d) => {
            info.is_data = true;
            // whatever can be parsed counts as "mentioned"
            if let Ok(p) = grammar::parse(codec, d) {
                info.mentioned.push((p.header.src, p.header.src_incarnation));
                if let Some(us) = &p.updates {
                    info.mentioned.extend(us.iter().map(|u| (*u.id(), u.incarnation())));
                }
            } else if let Ok(h) = codec.parse_header(&d[..]) {
                info.mentioned.push((h.src, h.src_incarnation));
            }
            let adm = admission(codec, &pre.id, max_packet, d);
            if let Admission::Admitted(p) = &adm {
                info.sender_active = sender_active(pre, &p.header.src);
                info.turn_undead = matches!(p.header.message, Message::TurnUndead);
                if info.sender_active {
                    info.updates = p.updates.clone().unwrap_or_default();
                }
                info.admitted = Some(p.clone());
            }
            info.admission = Some(adm);
        }
        _ => {}
    }
    info
}

pub fn renewed(cur: &Id) -> Option<Id> {
    let n = cur.renew()?;
    if n == *cur || !n.win_addr_conflict(cur) {
        None
    } else {
        Some(n)
    }
}
