use foca_verif::*;
use std::process::exit;

fn usage() -> ! {
    eprintln!("usage: verif check <Cxx> [--tier quick|thorough]\n       verif replay <file>\n       verif selftest");
    exit(2)
}

fn main() {
    core::install_quiet_panic_hook();
    let args: Vec<String> = std::env::args().collect();
    if args.len() < 2 {
        usage();
    }
    match args[1].as_str() {
        "check" => {
            if args.len() < 3 {
                usage();
            }
            let prop = args[2].to_uppercase();
            let mut tier = std::env::var("VERIF_TIER").unwrap_or_else(|_| "quick".into());
            let mut i = 3;
            while i < args.len() {
                if args[i] == "--tier" && i + 1 < args.len() {
                    tier = args[i + 1].clone();
                    i += 1;
                }
                i += 1;
            }
            if tier != "quick" && tier != "thorough" {
                usage();
            }
            let rep = match registry::run(&prop, &tier) {
                Some(r) => r,
                None => {
                    eprintln!("unknown property {prop}");
                    exit(2)
                }
            };
            exit(rep.finish());
        }
        "replay" => {
            if args.len() < 3 {
                usage();
            }
            exit(registry::replay(&args[2]));
        }
        "abort-demo" => {
            if args.len() < 3 {
                usage();
            }
            exit(c06::abort_demo(&args[2]));
        }
        "c05-cell" => {
            // verif c05-cell <n> <side_a> <phase> <start_event> <extra>
            let a: Vec<u64> = args[2..].iter().filter_map(|s| s.parse().ok()).collect();
            if a.len() < 5 {
                usage();
            }
            let cell = e2_checks2::C05Cell { n: a[0] as usize, side_a: a[1] as usize, phase: a[2], start_event: a[3], extra: a[4], asymmetric: a[1] == 0, bumped: a.get(5).copied().unwrap_or(0) == 1, twice: a.get(5).copied().unwrap_or(0) == 2, mt: a.get(6).copied().unwrap_or(5) as u8 };
            exit(e2_checks2::c05_show(&cell, &Default::default()));
        }
        "c04-cell" => {
            // verif c04-cell <n> <notify_down 0|1> <renew 0|1> <fanout> <mt> <flavour> <phase> <suspect> <drop> [<point> <alt>]...
            let a: Vec<u64> = args[2..].iter().filter_map(|s| s.parse().ok()).collect();
            if a.len() < 9 {
                usage();
            }
            let cell = e2_checks::C04Cell { n: a[0] as usize, notify_down: a[1] == 1, renew: a[2] == 1, fanout: a[3] as usize, mt: a[4] as u8, flavour: a[5] as u8, phase: a[6], suspect: a[7], drop: a[8] };
            let mut devs = std::collections::BTreeMap::new();
            for p in a[9..].chunks(2) {
                if p.len() == 2 {
                    devs.insert(p[0] as usize, p[1] as usize);
                }
            }
            let mut res = None;
            let tr = e2::trace_one(100_000, || {
                res = Some(e2_checks::run_c04(&cell, &devs));
            });
            for l in tr {
                println!("{l}");
            }
            let r = res.unwrap();
            println!("cell {}", cell.label());
            for (s, w) in &r.violations {
                println!("VIOLATED [{s}] {w}");
            }
            exit(if r.violations.is_empty() { 0 } else { 1 });
        }
        "abort-demo-decode" => {
            if args.len() < 3 {
                usage();
            }
            exit(c20::abort_demo_decode(&args[2]));
        }
        "selftest" => {
            let mut ok = true;
            for (g, l) in [(2, 2), (4, 3), (5, 4), (6, 5)] {
                let m = rng::menu(g, l);
                match rng::calibrate(&m, g, l) {
                    Ok(s) => println!("ok: {s}"),
                    Err(e) => {
                        println!("FAIL: {e}");
                        ok = false
                    }
                }
            }
            exit(if ok { 0 } else { 2 });
        }
        _ => usage(),
    }
}
