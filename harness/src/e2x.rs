//! E2 in exhaustive mode: breadth-first search with exact deduplication over
//! the global states of a tiny closed cluster (instances + in-flight
//! datagrams + pending timers with *relative* times). Every latency choice,
//! every order of simultaneous events at a node and every RNG answer is a
//! branch. A fault-free steady-state cluster is periodic (probe numbers wrap
//! at 256), so the search reaches a FIXPOINT: the invariant then holds for
//! all time, not just up to a horizon.
use crate::core::*;
use crate::doubles::*;
use foca::{OwnedNotification as N, State};
use rayon::prelude::*;
use std::collections::HashSet;
use std::sync::Mutex;

#[derive(Clone, Debug, PartialEq, Eq, Hash, PartialOrd, Ord)]
pub enum XEvt {
    Deliver { to: u8, bytes: Vec<u8> },
    Fire { node: u8, timer: TimerKey },
    /// node `node` is started and announces to `seed`
    Join { node: u8, seed: u8 },
}

impl XEvt {
    fn node(&self) -> u8 {
        match self {
            XEvt::Deliver { to, .. } => *to,
            XEvt::Fire { node, .. } => *node,
            XEvt::Join { node, .. } => *node,
        }
    }
}

#[derive(Clone)]
pub struct XWorld {
    pub nodes: Vec<Option<F>>,
    /// (time relative to now, event), kept sorted
    pub queue: Vec<(u64, XEvt)>,
}

pub struct XOpts {
    pub lat_menu: Vec<u64>,
    pub words: Vec<u32>,
    pub cfg: Cfg,
    /// remove RemoveDown timers etc. never scheduled in fault-free runs
    pub max_states: u64,
}

fn key(w: &XWorld) -> u128 {
    let snaps: Vec<_> = w.nodes.iter().map(|n| n.as_ref().map(|f| f.verif_snapshot())).collect();
    hash128(&(snaps, &w.queue))
}

/// All successors of `w`; Err = invariant violated.
fn successors(w: &XWorld, o: &XOpts) -> Result<Vec<XWorld>, String> {
    let Some(t) = w.queue.iter().map(|(t, _)| *t).min() else { return Ok(vec![]) };
    let at_t: Vec<usize> = (0..w.queue.len()).filter(|i| w.queue[*i].0 == t).collect();
    let first_node = at_t.iter().map(|i| w.queue[*i].1.node()).min().unwrap();
    let cands: Vec<usize> = at_t.into_iter().filter(|i| w.queue[*i].1.node() == first_node).collect();
    let mut out = Vec::new();
    let mut tried: Vec<&XEvt> = Vec::new();
    for ci in cands {
        let evt = &w.queue[ci].1;
        if tried.contains(&evt) {
            continue;
        }
        tried.push(evt);
        // base: remove the event, advance time
        let mut base = XWorld { nodes: w.nodes.clone(), queue: Vec::with_capacity(w.queue.len() + 4) };
        for (i, (tt, e)) in w.queue.iter().enumerate() {
            if i != ci {
                base.queue.push((tt - t, e.clone()));
            }
        }
        let node = evt.node() as usize;
        let ev = match evt {
            XEvt::Deliver { bytes, .. } => Ev::Data(bytes.clone()),
            XEvt::Fire { timer, .. } => Ev::Timer(*timer),
            XEvt::Join { node, seed } => {
                base.nodes[*node as usize] = Some(new_foca(id(*node, 0), &o.cfg, FixCodec::default(), TableHandler::new(InvMode::NewerVersion)));
                Ev::Announce(id(*seed, 0))
            }
        };
        if base.nodes[node].is_none() {
            out.push(base);
            continue;
        }
        // all RNG answers
        let mut stack: Vec<Vec<u32>> = vec![vec![]];
        while let Some(script) = stack.pop() {
            let mut f = base.nodes[node].clone().unwrap();
            let r = run_event(&mut f, &ev, &script);
            if let Some(p) = r.panic {
                return Err(format!("panic: {p}"));
            }
            if r.extra_draws > 0 {
                for &wd in o.words.iter().rev() {
                    let mut s = script.clone();
                    s.push(wd);
                    stack.push(s);
                }
                continue;
            }
            // invariant on this transition
            if let Res::Err(e) = r.res {
                return Err(format!("node {node}: {} returned {:?}", show_ev(&FixCodec::default(), &ev), e));
            }
            for n in r.notes() {
                if matches!(n, N::MemberDown(_) | N::Idle | N::Defunct | N::Rejoin(_)) {
                    return Err(format!("node {node} notified {} in a fault-free run", show_note(n)));
                }
            }
            if let Some(m) = f.iter_membership_state().find(|m| m.state() != State::Alive) {
                return Err(format!("node {node} records live member {}", show_member(m)));
            }
            // effects; each send branches on its latency
            let mut sends: Vec<(u8, Vec<u8>)> = Vec::new();
            let mut q = base.queue.clone();
            for e in &r.effects {
                match e {
                    Effect::Timer { after, timer } => q.push((after.as_millis() as u64, XEvt::Fire { node: node as u8, timer: TimerKey::from(timer) })),
                    Effect::Send { to, data } => sends.push((to.addr, data.clone())),
                    Effect::Note(_) => {}
                }
            }
            let combos = o.lat_menu.len().pow(sends.len() as u32);
            for c in 0..combos {
                let mut q2 = q.clone();
                let mut k = c;
                for (to, d) in &sends {
                    let lat = o.lat_menu[k % o.lat_menu.len()];
                    k /= o.lat_menu.len();
                    if (*to as usize) < base.nodes.len() {
                        q2.push((lat, XEvt::Deliver { to: *to, bytes: d.clone() }));
                    }
                }
                q2.sort();
                let mut nodes = base.nodes.clone();
                nodes[node] = Some(f.clone());
                out.push(XWorld { nodes, queue: q2 });
            }
        }
    }
    Ok(out)
}

#[derive(Default, Debug, Clone)]
pub struct XStats {
    pub states: u64,
    pub transitions: u64,
    pub levels: usize,
    pub fixpoint: bool,
    pub capped: bool,
    pub all_joined_states: u64,
}

/// BFS to fixpoint from `start`.
pub fn explore_fixpoint(start: XWorld, o: &XOpts) -> (XStats, Option<String>) {
    let seen: Mutex<HashSet<u128>> = Mutex::new(HashSet::new());
    seen.lock().unwrap().insert(key(&start));
    let mut frontier = vec![start];
    let mut st = XStats { states: 1, ..Default::default() };
    while !frontier.is_empty() {
        st.levels += 1;
        let results: Vec<Result<Vec<XWorld>, String>> = frontier
            .par_iter()
            .map(|w| {
                let succ = successors(w, o)?;
                let mut fresh = Vec::new();
                let n = succ.len();
                let mut g = Vec::with_capacity(n);
                for s in succ {
                    g.push((key(&s), s));
                }
                let mut lock = seen.lock().unwrap();
                for (k, s) in g {
                    if lock.insert(k) {
                        fresh.push(s);
                    }
                }
                drop(lock);
                // transitions counted via a sentinel world count
                fresh.push(XWorld { nodes: vec![], queue: vec![(n as u64, XEvt::Join { node: 255, seed: 255 })] });
                Ok(fresh)
            })
            .collect();
        let mut next = Vec::new();
        for r in results {
            match r {
                Err(e) => return (st, Some(e)),
                Ok(mut v) => {
                    let sentinel = v.pop().unwrap();
                    st.transitions += sentinel.queue[0].0;
                    next.extend(v);
                }
            }
        }
        st.states += next.len() as u64;
        st.all_joined_states += next.iter().filter(|w| w.nodes.iter().all(|n| n.is_some())).count() as u64;
        if st.states > o.max_states || crate::e2::past_budget() {
            st.capped = true;
            return (st, None);
        }
        frontier = next;
    }
    st.fixpoint = true;
    (st, None)
}

/// The fault-free world of `n` members: member 0 alone, the others join
/// through member 0 at the given instants.
pub fn joining_world(n: usize, cfg: &Cfg, join_times: &[u64]) -> XWorld {
    let mut nodes: Vec<Option<F>> = (0..n).map(|_| None).collect();
    nodes[0] = Some(new_foca(id(0, 0), cfg, FixCodec::default(), TableHandler::new(InvMode::NewerVersion)));
    let mut queue: Vec<(u64, XEvt)> = (1..n).map(|k| (join_times[k - 1], XEvt::Join { node: k as u8, seed: 0 })).collect();
    queue.sort();
    XWorld { nodes, queue }
}
