//! Property id -> check, and replay dispatch.
use crate::checks_e1::Variant;
use crate::report::Report;
use crate::rng;

pub fn run(prop: &str, tier: &str) -> Option<Report> {
    Some(match prop {
        "C08" => crate::checks_e1::c08(tier),
        "C09" => crate::checks_e1::c09(tier),
        "C10" => crate::checks_e1::c10(tier),
        "C11" => crate::checks_e1::c11(tier),
        "C12" => crate::checks_e1b::c12(tier),
        "C13" => crate::checks_e1::c13(tier),
        "C15" => crate::checks_e1b::c15(tier),
        "C16" => crate::checks_e1b::c16(tier),
        "C19" => crate::checks_e1::c19(tier),
        "C17" => crate::c17::c17(tier),
        _ => return crate::registry_ext::run(prop, tier),
    })
}

/// The E1 variants of a property (for `verif replay`).
pub fn e1_variants(prop: &str, tier: &str) -> Option<Vec<Variant>> {
    let w43 = rng::menu(4, 3);
    let w54 = rng::menu(5, 4);
    Some(match prop {
        "C08" => crate::checks_e1::c08_variants(tier, &w43),
        "C09" => crate::checks_e1::c09_variants(tier, &w43),
        "C10" => crate::checks_e1::c10_variants(tier, &w43),
        "C11" => crate::checks_e1::c11_variants(tier, &w43),
        "C13" => crate::checks_e1::c13_variants(tier, &w43),
        "C19" => crate::checks_e1::c19_variants(tier, &w43),
        "C12" => crate::checks_e1b::c12_variants(tier, &w54),
        "C15" => crate::checks_e1b::c15_variants(tier, &w54),
        "C16" => crate::checks_e1b::c16_variants(tier, &w54),
        "C07" => crate::checks_e1b::c07_variants(tier, &w54),
        _ => return crate::registry_ext::e1_variants(prop, tier),
    })
}

pub fn replay(path: &str) -> i32 {
    let Ok(s) = std::fs::read_to_string(path) else {
        eprintln!("cannot read {path}");
        return 2;
    };
    let Ok(doc) = serde_json::from_str::<serde_json::Value>(&s) else {
        eprintln!("{path} is not JSON");
        return 2;
    };
    let r = &doc["replay"];
    println!("property {}  signature {}", doc["property"], doc["signature"]);
    println!("recorded: {}", doc["what"]);
    match r["engine"].as_str() {
        Some("e1") => {
            let prop = r["property"].as_str().unwrap_or("");
            let label = r["variant"].as_str().unwrap_or("");
            if prop == "C06" {
                let hist: Vec<crate::e1::HistStep> = serde_json::from_value(r["history"].clone()).unwrap_or_default();
                let spec = crate::c06::hostile_spec(&rng::menu(4, 3));
                return match crate::e1::replay_verbose(&spec, &hist) {
                    Some(v) => {
                        println!("REPRODUCED [{}] {}", v.signature, v.what);
                        1
                    }
                    None => {
                        println!("not reproduced");
                        0
                    }
                };
            }
            if prop == "C17" {
                let hist: Vec<crate::e1::HistStep> = serde_json::from_value(r["history"].clone()).unwrap_or_default();
                let tier = r["tier"].as_str().unwrap_or("quick");
                let Some((spec, _)) = crate::c17::c17_specs(tier).into_iter().find(|(s, _)| s.base.label == label) else {
                    eprintln!("unknown variant {label}");
                    return 2;
                };
                return match crate::e1::replay_verbose(&spec, &hist) {
                    Some(v) => {
                        println!("REPRODUCED [{}] {}", v.signature, v.what);
                        1
                    }
                    None => {
                        println!("not reproduced");
                        0
                    }
                };
            }
            let mut spec = None;
            for tier in [r["tier"].as_str().unwrap_or("quick"), "thorough", "quick"] {
                if let Some(vs) = e1_variants(prop, tier) {
                    if let Some(v) = vs.into_iter().find(|v| v.spec.label == label) {
                        spec = Some(v.spec);
                        break;
                    }
                }
            }
            let Some(spec) = spec else {
                eprintln!("unknown variant {label} of {prop}");
                return 2;
            };
            let hist: Vec<crate::e1::HistStep> = match serde_json::from_value(r["history"].clone()) {
                Ok(h) => h,
                Err(e) => {
                    eprintln!("bad history: {e}");
                    return 2;
                }
            };
            match crate::e1::replay_verbose(&spec, &hist) {
                Some(v) => {
                    println!("REPRODUCED [{}] {}", v.signature, v.what);
                    1
                }
                None => {
                    println!("not reproduced: the recorded history no longer violates the property");
                    0
                }
            }
        }
        _ => crate::registry_ext::replay(&doc),
    }
}
