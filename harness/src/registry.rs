//! Property id -> check, and replay dispatch.
use crate::report::Report;

pub fn run(prop: &str, tier: &str) -> Option<Report> {
    Some(match prop {
        "C19" => crate::checks_e1::c19(tier),
        "C08" => crate::checks_e1::c08(tier),
        "C09" => crate::checks_e1::c09(tier),
        "C10" => crate::checks_e1::c10(tier),
        "C11" => crate::checks_e1::c11(tier),
        "C13" => crate::checks_e1::c13(tier),
        _ => return None,
    })
}

pub fn replay(path: &str) -> i32 {
    let Ok(s) = std::fs::read_to_string(path) else {
        eprintln!("cannot read {path}");
        return 2;
    };
    let Ok(doc) = serde_json::from_str::<serde_json::Value>(&s) else {
        eprintln!("{path} is not JSON");
        return 2;
    };
    let r = &doc["replay"];
    println!("property {}  signature {}", doc["property"], doc["signature"]);
    println!("recorded: {}", doc["what"]);
    match r["engine"].as_str() {
        Some("e1") => {
            let prop = r["property"].as_str().unwrap_or("");
            let tier = r["tier"].as_str().unwrap_or("quick");
            let label = r["variant"].as_str().unwrap_or("");
            let Some(spec) = crate::checks_e1::find_variant(prop, tier, label) else {
                eprintln!("unknown variant {label} of {prop}");
                return 2;
            };
            let hist: Vec<crate::e1::HistStep> = match serde_json::from_value(r["history"].clone()) {
                Ok(h) => h,
                Err(e) => {
                    eprintln!("bad history: {e}");
                    return 2;
                }
            };
            match crate::e1::replay_verbose(&spec, &hist) {
                Some(v) => {
                    println!("REPRODUCED [{}] {}", v.signature, v.what);
                    1
                }
                None => {
                    println!("not reproduced: the recorded history no longer violates the property");
                    0
                }
            }
        }
        other => {
            eprintln!("replay for engine {other:?} is handled by the owning check");
            crate::registry_ext::replay(&doc)
        }
    }
}
