//! E2 — a closed cluster of real `Foca` instances under a virtual clock.
//!
//! World = instances + an event queue (datagram deliveries and timer
//! firings, every timer exactly on time) + a fault plan. Every source of
//! nondeterminism is a numbered *choice point* answered by a `Chooser`:
//! the latency of each datagram, the order of simultaneous events at one
//! node, and every RNG draw of every instance. Exploration is either
//! deviation-bounded (default schedule + every schedule departing from it in
//! at most D choice points, after CHESS) or exhaustive with deduplication
//! for tiny worlds.
use crate::core::*;
use crate::doubles::*;
use foca::{OwnedNotification, State};
use rayon::prelude::*;
use std::collections::BTreeMap;

/// Event trace of ONE execution, for the evidence file (`trace_one`).
pub static TRACE_ON: std::sync::atomic::AtomicBool = std::sync::atomic::AtomicBool::new(false);
pub static TRACE: std::sync::Mutex<Vec<String>> = std::sync::Mutex::new(Vec::new());

/// Run `f` (one execution of a scenario) with event tracing on; returns the
/// first `keep` events of the explored window.
pub fn trace_one(keep: usize, f: impl FnOnce()) -> Vec<String> {
    TRACE.lock().unwrap().clear();
    TRACE_ON.store(true, std::sync::atomic::Ordering::SeqCst);
    f();
    TRACE_ON.store(false, std::sync::atomic::Ordering::SeqCst);
    let g = TRACE.lock().unwrap();
    g[..g.len().min(keep)].to_vec()
}

#[derive(Clone, Copy, Debug, PartialEq, Eq, Hash)]
pub enum ChoiceKind {
    Latency,
    Tie,
    Rng,
}

/// Answers choice points: option 0 everywhere except at the listed
/// deviations. Records how many options each point had.
#[derive(Clone, Debug, Default)]
pub struct Chooser {
    pub deviations: BTreeMap<usize, usize>,
    /// options at each choice point seen so far (only while `recording`)
    pub points: Vec<(ChoiceKind, u16)>,
    pub recording: bool,
}

impl Chooser {
    pub fn choose(&mut self, kind: ChoiceKind, options: usize) -> usize {
        if !self.recording || options <= 1 {
            return 0;
        }
        let idx = self.points.len();
        self.points.push((kind, options as u16));
        match self.deviations.get(&idx) {
            Some(a) if *a < options => *a,
            _ => 0,
        }
    }
    fn pending_from(&self, idx: usize) -> bool {
        self.deviations.range(idx..).next().is_some()
    }
}

#[derive(Clone, Debug, PartialEq, Eq, Hash, PartialOrd, Ord)]
pub enum Evt {
    Deliver { to: u8, from: u8, bytes: Vec<u8> },
    Fire { node: u8, timer: TimerKey },
    /// scenario-level action (announce, leave, crash, partition change ...)
    Action { node: u8, code: u16 },
}

impl Evt {
    pub fn node(&self) -> u8 {
        match self {
            Evt::Deliver { to, .. } => *to,
            Evt::Fire { node, .. } => *node,
            Evt::Action { node, .. } => *node,
        }
    }
}

#[derive(Clone, Debug, Default)]
pub struct NodeLog {
    pub notes: Vec<(u64, OwnedNotification<Id>)>,
    pub errors: Vec<(u64, String)>,
    /// (time, to, bytes) of everything sent
    pub sends: Vec<(u64, Id, Vec<u8>)>,
    /// (time, from addr, bytes) of everything delivered to it
    pub received: Vec<(u64, u8, Vec<u8>)>,
}

#[derive(Clone)]
pub struct SimOpts {
    pub lat_menu: Vec<u64>,
    pub words: Vec<u32>,
    pub record_sends: bool,
    pub record_received: bool,
}

pub struct Sim {
    pub nodes: Vec<Option<F>>,
    pub now: u64,
    /// (time, seq) -> event
    pub queue: BTreeMap<(u64, u64), Evt>,
    pub seq: u64,
    pub chooser: Chooser,
    pub opts: SimOpts,
    pub logs: Vec<NodeLog>,
    /// datagrams sent so far (fault plans index into this)
    pub sent_count: u64,
    /// drop the datagram with this send index
    pub drop_index: Option<u64>,
    pub dropped: Option<(u8, u8, Vec<u8>)>,
    /// blocked[a][b]: datagrams from a to b are lost
    pub blocked: Vec<Vec<bool>>,
    pub codec: FixCodec,
    pub panicked: Option<String>,
    pub events_processed: u64,
    /// the next Ack sent takes this many extra ticks (one slow round trip)
    pub delay_next_ack: Option<u64>,
}

impl Sim {
    pub fn new(n: usize, opts: SimOpts) -> Sim {
        Sim {
            nodes: (0..n).map(|_| None).collect(),
            now: 0,
            queue: BTreeMap::new(),
            seq: 0,
            chooser: Chooser::default(),
            opts,
            logs: vec![NodeLog::default(); n],
            sent_count: 0,
            drop_index: None,
            dropped: None,
            blocked: vec![vec![false; n]; n],
            codec: FixCodec::default(),
            panicked: None,
            events_processed: 0,
            delay_next_ack: None,
        }
    }

    pub fn schedule(&mut self, at: u64, e: Evt) {
        self.seq += 1;
        self.queue.insert((at, self.seq), e);
    }

    pub fn spawn(&mut self, addr: u8, me: Id, cfg: &Cfg) {
        let mut h = TableHandler::new(InvMode::NewerVersion);
        h.accept_all = false;
        self.nodes[addr as usize] = Some(new_foca(me, cfg, self.codec, h));
    }

    pub fn crash(&mut self, addr: u8) {
        self.nodes[addr as usize] = None;
        let dead: Vec<(u64, u64)> = self.queue.iter().filter(|(_, e)| e.node() == addr && !matches!(e, Evt::Action { .. })).map(|(k, _)| *k).collect();
        for k in dead {
            self.queue.remove(&k);
        }
    }

    /// Run one public call on a node with every RNG draw a choice point.
    pub fn call(&mut self, addr: u8, ev: &Ev) -> Option<StepOut> {
        let words = self.opts.words.clone();
        let node = self.nodes[addr as usize].as_mut()?;
        let base = self.chooser.points.len();
        let need_clone = self.chooser.recording && self.chooser.pending_from(base);
        let backup = if need_clone { Some(node.clone()) } else { None };
        let mut out = run_event(node, ev, &[]);
        if self.chooser.recording && out.draws > 0 {
            // resolve draw by draw
            let mut script: Vec<u32> = Vec::new();
            loop {
                // the run used `script` then defaults; draws beyond the script
                // are choice points
                let total = out.draws;
                let mut changed = false;
                while script.len() < total {
                    let a = self.chooser.choose(ChoiceKind::Rng, words.len());
                    script.push(words[a]);
                    if a != 0 {
                        changed = true;
                        break;
                    }
                }
                if !changed {
                    break;
                }
                // a deviation: re-run from the backup with the longer script
                let Some(b) = backup.as_ref() else {
                    // cannot happen: a pending deviation implies a backup
                    self.panicked = Some("machinery: deviation without backup".into());
                    break;
                };
                let node = self.nodes[addr as usize].as_mut().unwrap();
                *node = b.clone();
                out = run_event(node, ev, &script);
            }
        }
        if let Some(p) = &out.panic {
            self.panicked = Some(format!("node {} panicked on {}: {p}", addr, show_ev(&self.codec, ev)));
        }
        if let Res::Err(e) = out.res {
            self.logs[addr as usize].errors.push((self.now, format!("{} -> {:?}", show_ev(&self.codec, ev), e)));
        }
        // effects
        for e in &out.effects {
            match e {
                Effect::Note(n) => self.logs[addr as usize].notes.push((self.now, n.clone())),
                Effect::Timer { after, timer } => {
                    let at = self.now + after.as_millis() as u64;
                    self.schedule(at, Evt::Fire { node: addr, timer: TimerKey::from(timer) });
                }
                Effect::Send { to, data } => {
                    let idx = self.sent_count;
                    self.sent_count += 1;
                    if self.opts.record_sends {
                        self.logs[addr as usize].sends.push((self.now, *to, data.clone()));
                    }
                    let lat_i = self.chooser.choose(ChoiceKind::Latency, self.opts.lat_menu.len());
                    let mut lat = self.opts.lat_menu[lat_i];
                    if let Some(extra) = self.delay_next_ack {
                        if data.len() > 6 && matches!(self.codec.parse_header(&data[..]).map(|h| h.message), Ok(foca::Message::Ack(_))) {
                            lat += extra;
                            self.delay_next_ack = None;
                        }
                    }
                    if self.drop_index == Some(idx) {
                        self.dropped = Some((addr, to.addr, data.clone()));
                        continue;
                    }
                    let ta = to.addr as usize;
                    if ta >= self.nodes.len() || self.blocked[addr as usize][ta] {
                        continue;
                    }
                    self.schedule(self.now + lat, Evt::Deliver { to: to.addr, from: addr, bytes: data.clone() });
                }
            }
        }
        Some(out)
    }

    /// Process the next event. Returns it (None when the queue is empty or
    /// the next event is later than `until`).
    pub fn step(&mut self, until: u64) -> Option<(u64, Evt)> {
        let (&(t, _), _) = self.queue.iter().next()?;
        if t > until {
            return None;
        }
        // simultaneous events: nodes in address order (events at different
        // nodes commute); among one node's events the order is a choice
        let same: Vec<((u64, u64), u8)> = self.queue.range((t, 0)..(t + 1, 0)).map(|(k, e)| (*k, e.node())).collect();
        let first_node = same.iter().map(|(_, n)| *n).min().unwrap();
        let cands: Vec<(u64, u64)> = same.iter().filter(|(_, n)| *n == first_node).map(|(k, _)| *k).collect();
        let pick = self.chooser.choose(ChoiceKind::Tie, cands.len());
        let key = cands[pick];
        let evt = self.queue.remove(&key).unwrap();
        self.now = t;
        self.events_processed += 1;
        if self.chooser.recording && TRACE_ON.load(std::sync::atomic::Ordering::Relaxed) {
            let line = match &evt {
                Evt::Deliver { to, from, bytes } => format!("t={t} node {to} <- node {from}: {}", show_dgram(&self.codec, bytes)),
                Evt::Fire { node, timer } => format!("t={t} node {node} timer {}", timer.show()),
                Evt::Action { node, code } => format!("t={t} node {node} scenario action {code}"),
            };
            let mut g = TRACE.lock().unwrap();
            if g.len() < 400 {
                g.push(line);
            }
        }
        match &evt {
            Evt::Deliver { to, from, bytes } => {
                if self.nodes[*to as usize].is_some() {
                    if self.opts.record_received {
                        self.logs[*to as usize].received.push((t, *from, bytes.clone()));
                    }
                    self.call(*to, &Ev::Data(bytes.clone()));
                }
            }
            Evt::Fire { node, timer } => {
                self.call(*node, &Ev::Timer(*timer));
            }
            Evt::Action { .. } => {}
        }
        Some((t, evt))
    }

    pub fn view(&self, addr: u8) -> Option<View> {
        self.nodes[addr as usize].as_ref().map(View::of)
    }

    pub fn live(&self) -> Vec<u8> {
        (0..self.nodes.len() as u8).filter(|a| self.nodes[*a as usize].is_some()).collect()
    }

    /// Does every live node list exactly every other live node's current
    /// identity as active?
    pub fn fully_meshed(&self, among: &[u8]) -> bool {
        let ids: Vec<Id> = among.iter().filter_map(|a| self.nodes[*a as usize].as_ref().map(|f| *f.identity())).collect();
        for a in among {
            let Some(v) = self.view(*a) else { continue };
            let mut want: Vec<Id> = ids.iter().filter(|i| i.addr != *a).copied().collect();
            want.sort();
            let mut have = v.active.clone();
            have.sort();
            if want != have {
                return false;
            }
        }
        true
    }

    /// Every node of `among` holds every other node of `among` as Alive under
    /// its current identity (other records are not judged).
    pub fn lists_alive(&self, among: &[u8]) -> bool {
        for a in among {
            let Some(v) = self.view(*a) else { continue };
            for b in among {
                if a == b {
                    continue;
                }
                let Some(fb) = self.nodes[*b as usize].as_ref() else { continue };
                match v.record_of(fb.identity()) {
                    Some(m) if m.state() == State::Alive => {}
                    _ => return false,
                }
            }
        }
        true
    }

    pub fn all_alive(&self, among: &[u8]) -> bool {
        for a in among {
            let Some(v) = self.view(*a) else { continue };
            if v.members.iter().any(|m| among.contains(&m.id().addr) && m.state() != State::Alive) {
                return false;
            }
        }
        self.fully_meshed(among)
    }
}

/// Result of one execution of a scenario.
#[derive(Clone, Debug, Default)]
pub struct RunResult {
    /// (signature, description) of violated clauses
    pub violations: Vec<(String, String)>,
    /// choice points of the run (kind, options)
    pub points: Vec<(ChoiceKind, u16)>,
    pub events: u64,
    /// free-form measurements (e.g. convergence time), max-merged by key
    pub metrics: BTreeMap<String, u64>,
    /// tallies, sum-merged by key
    pub tallies: BTreeMap<String, u64>,
}

#[derive(Clone, Debug, Default)]
pub struct DevStats {
    pub executions: u64,
    pub events: u64,
    pub max_points: usize,
    pub completed_bound: usize,
    pub capped: Option<String>,
    pub metrics: BTreeMap<String, u64>,
    pub tallies: BTreeMap<String, u64>,
    pub per_level: Vec<(usize, u64)>,
}

#[derive(Clone, Debug)]
pub struct DevViolation {
    pub signature: String,
    pub what: String,
    pub deviations: Vec<(usize, usize)>,
}

/// Deviation-bounded exploration of `scenario`: the default schedule, then
/// every schedule with exactly 1, 2, .. `bound` non-default answers.
/// Wall budget of the running E2 check (set by the check, consulted between
/// deviation levels and between cells). What it cuts is reported as capped,
/// never as covered.
static BUDGET_END: std::sync::Mutex<Option<std::time::Instant>> = std::sync::Mutex::new(None);

pub fn set_budget(seconds: f64) {
    *BUDGET_END.lock().unwrap() = Some(std::time::Instant::now() + std::time::Duration::from_secs_f64(seconds));
}

pub fn past_budget() -> bool {
    BUDGET_END.lock().unwrap().is_some_and(|t| std::time::Instant::now() > t)
}

pub fn explore_deviations<S>(scenario: &S, bound: usize, max_execs: u64) -> (DevStats, Vec<DevViolation>)
where
    S: Fn(&BTreeMap<usize, usize>) -> RunResult + Sync,
{
    let mut stats = DevStats::default();
    let mut viols: Vec<DevViolation> = Vec::new();
    let absorb = |devs: &BTreeMap<usize, usize>, r: &RunResult, stats: &mut DevStats, viols: &mut Vec<DevViolation>| {
        stats.executions += 1;
        stats.events += r.events;
        stats.max_points = stats.max_points.max(r.points.len());
        for (k, v) in &r.metrics {
            let e = stats.metrics.entry(k.clone()).or_insert(0);
            *e = (*e).max(*v);
        }
        for (k, v) in &r.tallies {
            *stats.tallies.entry(k.clone()).or_insert(0) += *v;
        }
        for (s, w) in &r.violations {
            if viols.len() < 2000 {
                viols.push(DevViolation { signature: s.clone(), what: w.clone(), deviations: devs.iter().map(|(a, b)| (*a, *b)).collect() });
            }
        }
    };
    let empty = BTreeMap::new();
    let r0 = scenario(&empty);
    absorb(&empty, &r0, &mut stats, &mut viols);
    stats.per_level.push((0, 1));
    // level d: (deviation set, choice points of that run)
    let mut level: Vec<(BTreeMap<usize, usize>, Vec<(ChoiceKind, u16)>)> = vec![(empty, r0.points)];
    for d in 1..=bound {
        // children deviate strictly after the parent's last deviation
        let mut jobs: Vec<BTreeMap<usize, usize>> = Vec::new();
        for (devs, points) in &level {
            let start = devs.keys().next_back().map(|k| k + 1).unwrap_or(0);
            for (i, (_, opts)) in points.iter().enumerate().skip(start) {
                for alt in 1..*opts as usize {
                    let mut dv = devs.clone();
                    dv.insert(i, alt);
                    jobs.push(dv);
                }
            }
        }
        if stats.executions + jobs.len() as u64 > max_execs {
            stats.capped = Some(format!("execution cap {} would be exceeded at deviation bound {} ({} schedules)", max_execs, d, jobs.len()));
            break;
        }
        if past_budget() {
            stats.capped = Some(format!("wall budget of the check used up before deviation bound {d} of this cell"));
            break;
        }
        let keep_points = d < bound;
        let results: Vec<(BTreeMap<usize, usize>, RunResult)> = jobs.into_par_iter().map(|dv| {
            let mut r = scenario(&dv);
            if !keep_points {
                r.points = Vec::new();
            }
            (dv, r)
        }).collect();
        let mut next = Vec::with_capacity(if keep_points { results.len() } else { 0 });
        let mut count = 0u64;
        for (dv, r) in results {
            count += 1;
            absorb(&dv, &r, &mut stats, &mut viols);
            if keep_points {
                next.push((dv, r.points));
            }
        }
        stats.per_level.push((d, count));
        stats.completed_bound = d;
        level = next;
        if !viols.is_empty() && viols.len() >= 2000 {
            break;
        }
    }
    (stats, viols)
}
