//! Property monitors for the single-instance explorer. Each judges one
//! transition (pre view, event, effects, post view) using public getters,
//! runtime effects and return values only.
use crate::core::*;
use crate::doubles::*;
use crate::e1::{viol, StepCtx, Viol};
use crate::grammar::{self, SenderCtx};
use crate::refmodel::*;
use foca::{Identity, Member, Message, OwnedNotification as N, State};
use std::collections::BTreeMap;

/// Connection-state mirror driven by the notification stream alone (an
/// identity change or a successful reuse resets to idle at call start).
pub fn conn_after(conn: Conn, ev: &Ev, out: &StepOut) -> Conn {
    let mut c = conn;
    if matches!(ev, Ev::ChangeId(_) | Ev::Reuse) && out.res.is_ok() {
        c = Conn::Idle;
    }
    for n in out.notes() {
        match n {
            N::Active => c = Conn::Active,
            N::Idle => c = Conn::Idle,
            N::Defunct => c = Conn::Defunct,
            N::Rejoin(_) => c = Conn::Idle,
            _ => {}
        }
    }
    c
}

// ---------------------------------------------------------------- C08 ----

/// C08: notifications mirror membership and connection state.
pub fn c08_step(cx: &StepCtx<'_, impl Sized>, info: &InputInfo, conn_pre: Conn, own_inc_pre: u16) -> Result<Conn, Viol> {
    let pre = cx.pre_view;
    let post = cx.post_view;
    // (1) replay MemberUp / MemberDown / Rename on the previous active set
    let mut set: Vec<Id> = pre.active.clone();
    let mut conn = conn_pre;
    let mut active_on_empty = false;
    let is_reset_call = matches!(cx.ev, Ev::ChangeId(_)) && cx.out.res.is_ok() || matches!(cx.ev, Ev::Reuse) && cx.out.res.is_ok();
    if is_reset_call {
        conn = Conn::Idle;
    }
    for n in cx.out.notes() {
        match n {
            N::MemberUp(i) => {
                if set.contains(i) {
                    return Err(viol("c08:memberup-for-present", format!("MemberUp({}) notified but it was already up", i.show())));
                }
                set.push(*i);
            }
            N::MemberDown(i) => {
                let Some(p) = set.iter().position(|x| x == i) else {
                    return Err(viol("c08:memberdown-for-absent", format!("MemberDown({}) notified but it was not up", i.show())));
                };
                set.remove(p);
            }
            N::Rename(a, b) => {
                if let Some(p) = set.iter().position(|x| x == a) {
                    set[p] = *b;
                }
            }
            N::Active => {
                if conn != Conn::Idle {
                    return Err(viol("c08:active-not-from-idle", format!("Active notified while the instance was {:?}", conn)));
                }
                // the relative order of MemberUp and Active within one call
                // is left open by the property: judged at the end of the call
                if set.is_empty() {
                    active_on_empty = true;
                }
                conn = Conn::Active;
            }
            N::Idle => {
                if conn != Conn::Active {
                    return Err(viol("c08:idle-not-from-active", format!("Idle notified while the instance was {:?}", conn)));
                }
                if !set.is_empty() {
                    return Err(viol("c08:idle-with-members", format!("Idle notified with {} active members", set.len())));
                }
                conn = Conn::Idle;
            }
            N::Defunct => conn = Conn::Defunct,
            N::Rejoin(_) => conn = Conn::Idle,
        }
    }
    let mut a = set.clone();
    a.sort();
    let mut b = post.active.clone();
    b.sort();
    if a != b {
        return Err(viol(
            "c08:replay-mismatch",
            format!(
                "replaying notifications gives {{{}}} but iter_members() is {{{}}}",
                a.iter().map(|i| i.show()).collect::<Vec<_>>().join(","),
                b.iter().map(|i| i.show()).collect::<Vec<_>>().join(",")
            ),
        ));
    }
    if post.num_members != post.active.len() {
        return Err(viol("c08:num-members", format!("num_members()={} but iter_members() yields {}", post.num_members, post.active.len())));
    }
    if conn == Conn::Active && post.active.is_empty() {
        return Err(viol("c08:active-but-empty", "instance stays active with no active member (Idle missing)".into()));
    }
    if active_on_empty && set.is_empty() {
        return Err(viol("c08:active-without-members", "Active notified with no active member".into()));
    }
    // (2) Defunct / Rejoin iff the input contains a self-death
    let mut cur = (pre.id, own_inc_pre);
    let mut dr: Vec<&N<Id>> = cx.out.notes().filter(|n| matches!(n, N::Defunct | N::Rejoin(_))).collect();
    dr.reverse();
    let mut deaths = 0usize;
    let dr_total = dr.len();
    let mut consume = |cur: &mut (Id, u16), why: &str| -> Result<(), Viol> {
        match dr.pop() {
            None => Err(viol("c08:missing-defunct-or-rejoin", format!("input contains {why} for the current identity {} but neither Defunct nor Rejoin was notified", cur.0.show()))),
            Some(N::Rejoin(x)) => {
                if *x == cur.0 || !x.win_addr_conflict(&cur.0) {
                    return Err(viol("c08:rejoin-bad-identity", format!("Rejoin({}) does not supersede {}", x.show(), cur.0.show())));
                }
                *cur = (*x, 0);
                Ok(())
            }
            Some(_) => Ok(()),
        }
    };
    match cx.ev {
        Ev::Leave => {
            if cx.out.res.is_ok() {
                deaths += 1;
                consume(&mut cur, "leave_cluster")?;
            }
        }
        Ev::Apply(..) | Ev::Data(_) => {
            let mut died = false;
            if info.is_data && info.admitted.is_some() && !info.sender_active {
                if info.turn_undead {
                    deaths += 1;
                    consume(&mut cur, "TurnUndead (from an inactive sender)")?;
                }
            } else {
                for u in &info.updates {
                    if *u.id() != cur.0 {
                        continue;
                    }
                    match u.state() {
                        State::Alive => {}
                        State::Down => {
                            deaths += 1;
                            died = true;
                            consume(&mut cur, "Down")?;
                        }
                        State::Suspect => {
                            let top = u.incarnation().max(cur.1);
                            if top == u16::MAX {
                                deaths += 1;
                                died = true;
                                consume(&mut cur, "an irrefutable suspicion (incarnation MAX)")?;
                            } else if u.incarnation() >= cur.1 {
                                cur.1 = top + 1;
                            }
                        }
                    }
                }
                // the message itself, handled only while connected
                if info.turn_undead && info.sender_active {
                    let connected = !died && conn_pre != Conn::Defunct && !post.active.is_empty() && cx.out.res != Res::Err(ErrKind::CustomBroadcast) && cx.out.res != Res::Err(ErrKind::MalformedPacket);
                    if connected {
                        deaths += 1;
                        consume(&mut cur, "TurnUndead")?;
                    } else if dr_total > deaths {
                        // not connected when the message was reached: the
                        // property leaves open whether it still counts as
                        // "learning"; either outcome is accepted
                        deaths += 1;
                        consume(&mut cur, "TurnUndead")?;
                    }
                }
            }
        }
        _ => {}
    }
    if let Some(extra) = dr.pop() {
        return Err(viol(
            "c08:spurious-defunct-or-rejoin",
            format!("{} notified although the input held only {} self-death event(s)", show_note(extra), deaths),
        ));
    }
    let rejoined = cx.out.notes().filter(|n| matches!(n, N::Rejoin(_))).last();
    match rejoined {
        Some(N::Rejoin(x)) => {
            if post.id != *x {
                return Err(viol("c08:rejoin-identity-mismatch", format!("Rejoin({}) notified but identity() is {}", x.show(), post.id.show())));
            }
        }
        _ => {
            if post.id != pre.id && !matches!(cx.ev, Ev::ChangeId(_)) {
                return Err(viol("c08:identity-changed-without-rejoin", format!("identity changed {} -> {} without Rejoin", pre.id.show(), post.id.show())));
            }
        }
    }
    Ok(conn)
}

/// C08 last clause: AccumulatingRuntime yields the same effects in the same
/// order as a direct Runtime.
pub fn c08_accumulating_twin(pre: &F, ev: &Ev, script: &[u32], direct: &StepOut) -> Result<(), Viol> {
    use foca::AccumulatingRuntime;
    let mut f = pre.clone();
    f.verif_rng_mut().load(script);
    let mut rt = AccumulatingRuntime::<Id>::new();
    let r = std::panic::catch_unwind(std::panic::AssertUnwindSafe(|| match ev {
        Ev::Data(d) => f.handle_data(d, &mut rt).map(|_| false),
        Ev::Timer(t) => f.handle_timer(t.to_timer(), &mut rt).map(|_| false),
        Ev::Apply(ms, b) => f.apply_many(ms.iter().cloned(), *b, &mut rt).map(|_| false),
        Ev::Announce(d) => f.announce(*d, &mut rt).map(|_| false),
        Ev::Gossip => f.gossip(&mut rt).map(|_| false),
        Ev::Broadcast => f.broadcast(&mut rt).map(|_| false),
        Ev::Leave => f.leave_cluster(&mut rt).map(|_| false),
        Ev::ChangeId(n) => f.change_identity(*n, &mut rt).map(|_| false),
        Ev::Reuse => f.reuse_down_identity().map(|_| false),
        Ev::SetConfig(c) => f.set_config(c.to_config()).map(|_| false),
        Ev::AddBroadcast(d) => f.add_broadcast(d),
        Ev::Sleep(_) => Ok(false),
    }));
    let Ok(r) = r else {
        return Err(viol("panic", "Foca panicked with AccumulatingRuntime".into()));
    };
    let res = match r {
        Ok(b) => {
            if matches!(ev, Ev::AddBroadcast(_)) {
                Res::OkBool(b)
            } else {
                Res::Ok
            }
        }
        Err(e) => Res::Err(ErrKind::from(&e)),
    };
    if res != direct.res {
        return Err(viol("c08:accumulating-result", format!("result differs: {:?} vs {:?}", res, direct.res)));
    }
    let mut sends = Vec::new();
    while let Some((to, b)) = rt.to_send() {
        sends.push((to, b.to_vec()));
    }
    let mut timers = Vec::new();
    while let Some((after, t)) = rt.to_schedule() {
        timers.push((after, TimerKey::from(&t)));
    }
    let mut notes = Vec::new();
    while let Some(n) = rt.to_notify() {
        notes.push(n);
    }
    let d_sends: Vec<(Id, Vec<u8>)> = direct.sends().map(|(t, d)| (*t, d.clone())).collect();
    let d_timers: Vec<_> = direct.timers().collect();
    let d_notes: Vec<_> = direct.notes().cloned().collect();
    if sends != d_sends || timers != d_timers || notes != d_notes {
        return Err(viol(
            "c08:accumulating-differs",
            format!("AccumulatingRuntime streams differ from the direct runtime: sends {}/{} timers {}/{} notifications {}/{}", sends.len(), d_sends.len(), timers.len(), d_timers.len(), notes.len(), d_notes.len()),
        ));
    }
    if rt.backlog() != 0 {
        return Err(viol("c08:accumulating-backlog", "backlog() non-zero after draining".into()));
    }
    Ok(())
}

// ---------------------------------------------------------------- C09 ----

#[derive(Clone, Debug, PartialEq, Eq, Hash, Default)]
pub struct C09State {
    /// bitmask of addresses any input mentioned
    pub addrs_seen: u32,
    /// per address: highest generation a record held since the last forget
    pub hi_gen: BTreeMap<u8, u8>,
}

pub fn c09_step(cx: &StepCtx<'_, impl Sized>, info: &InputInfo, st: &mut C09State, notify_down: bool) -> Result<(), Viol> {
    let pre = cx.pre_view;
    let post = cx.post_view;
    for (i, _) in &info.mentioned {
        st.addrs_seen |= 1 << (i.addr.min(31));
    }
    match cx.ev {
        Ev::Announce(d) | Ev::ChangeId(d) => st.addrs_seen |= 1 << (d.addr.min(31)),
        Ev::Timer(TimerKey::SendIndirectProbe { probed, .. }) => st.addrs_seen |= 1 << (probed.addr.min(31)),
        Ev::Timer(TimerKey::ChangeSuspectToDown { member, .. }) => st.addrs_seen |= 1 << (member.addr.min(31)),
        Ev::Timer(TimerKey::RemoveDown(m)) => st.addrs_seen |= 1 << (m.addr.min(31)),
        _ => {}
    }
    // one record per address
    for (k, a) in post.members.iter().enumerate() {
        for b in &post.members[k + 1..] {
            if a.id().addr == b.id().addr {
                return Err(viol("c09:two-records-one-address", format!("records {} and {} share an address", show_member(a), show_member(b))));
            }
        }
    }
    // own address never active
    if let Some(r) = post.members.iter().find(|r| r.id().addr == post.id.addr && r.state() != State::Down) {
        return Err(viol("c09:own-address-active", format!("own address listed as active member {}", show_member(r))));
    }
    // bounded by the addresses it was told about
    if post.members.len() > st.addrs_seen.count_ones() as usize {
        return Err(viol("c09:more-records-than-addresses", format!("{} records but only {} distinct addresses were ever mentioned", post.members.len(), st.addrs_seen.count_ones())));
    }
    // no record changes without a cause in THIS call's input: a payload that
    // had to be discarded must not surface later either
    {
        let mut allowed: Option<Vec<u8>> = Some(Vec::new()); // None = anything
        match cx.ev {
            Ev::Apply(..) => allowed = Some(info.mentioned.iter().map(|(i, _)| i.addr).collect()),
            Ev::Data(_) => {
                let processed = match &info.admission {
                    Some(Admission::Admitted(_)) => info.sender_active,
                    Some(Admission::AdmittedMalformed) => true,
                    _ => false,
                };
                if processed {
                    allowed = Some(info.mentioned.iter().map(|(i, _)| i.addr).collect());
                }
            }
            Ev::Timer(TimerKey::ProbeRandomMember(_)) => allowed = None,
            Ev::Timer(TimerKey::ChangeSuspectToDown { member, .. }) => allowed = Some(vec![member.addr]),
            Ev::Timer(TimerKey::RemoveDown(m)) => allowed = Some(vec![m.addr]),
            _ => {}
        }
        if let Some(al) = allowed {
            let mut addrs: Vec<u8> = pre.members.iter().chain(post.members.iter()).map(|m| m.id().addr).collect();
            addrs.sort_unstable();
            addrs.dedup();
            for a in addrs {
                if pre.record_at(a) != post.record_at(a) && !al.contains(&a) {
                    return Err(viol(
                        "c09:membership-changed-without-cause",
                        format!("the record for address {} changed ({:?} -> {:?}) although this call's input does not mention it", a, pre.record_at(a).map(show_member), post.record_at(a).map(show_member)),
                    ));
                }
            }
        }
    }
    // identities only move forward
    let forgotten: Option<Id> = match cx.ev {
        Ev::Timer(TimerKey::RemoveDown(i)) => Some(*i),
        _ => None,
    };
    for old in &pre.members {
        let addr = old.id().addr;
        match post.record_at(addr) {
            None => {
                let ok = forgotten.is_some_and(|f| f == *old.id()) && old.state() == State::Down;
                if !ok {
                    return Err(viol("c09:record-vanished", format!("record {} disappeared without its forget-timer", show_member(old))));
                }
                st.hi_gen.remove(&addr);
            }
            Some(new) if new.id() != old.id() => {
                if !new.id().win_addr_conflict(old.id()) {
                    return Err(viol("c09:identity-regressed", format!("record {} replaced by {} which does not win the address conflict", show_member(old), show_member(new))));
                }
                if !cx.out.has_note(&N::Rename(*old.id(), *new.id())) {
                    // a chain old->mid->new within one call is also fine
                    let chained = cx.out.notes().any(|n| matches!(n, N::Rename(a, _) if a == old.id()))
                        && cx.out.notes().any(|n| matches!(n, N::Rename(_, b) if b == new.id()));
                    if !chained {
                        return Err(viol("c09:rename-not-notified", format!("record {} replaced by {} without Rename", show_member(old), show_member(new))));
                    }
                }
            }
            _ => {}
        }
    }
    for r in &post.members {
        let e = st.hi_gen.entry(r.id().addr).or_insert(r.id().gen);
        if r.id().gen < *e {
            return Err(viol("c09:fell-back-to-superseded", format!("address {} fell back to generation {} after holding {}", r.id().addr, r.id().gen, *e)));
        }
        *e = r.id().gen;
    }
    // payload of a superseded / Down sender is discarded
    if let Some(p) = &info.admitted {
        if !info.sender_active {
            if post.members != pre.members {
                return Err(viol("c09:stale-sender-changed-membership", format!("datagram from superseded/Down sender {} changed the membership", p.header.src.show())));
            }
            // (a rejoin triggered by TurnUndead gossips, which may legitimately
            // drain the custom backlog; the handler's knowledge is the witness)
            if cx.pre.f.verif_handler().seen != cx.post.verif_handler().seen || (!info.turn_undead && post.custom_backlog != pre.custom_backlog) {
                return Err(viol("c09:stale-sender-reached-handler", format!("custom broadcast of superseded/Down sender {} reached the handler", p.header.src.show())));
            }
            let self_death = info.turn_undead;
            for (to, d) in cx.out.sends() {
                let Ok(q) = grammar::parse(&FixCodec::default(), d) else { continue };
                let is_tu_reply = matches!(q.header.message, Message::TurnUndead) && *to == p.header.src && notify_down;
                if is_tu_reply {
                    continue;
                }
                if self_death && matches!(q.header.message, Message::Gossip) {
                    // reaction to its own death (rejoin gossip)
                    continue;
                }
                return Err(viol("c09:stale-sender-answered", format!("datagram from superseded/Down sender {} was answered with {}", p.header.src.show(), show_dgram(&FixCodec::default(), d))));
            }
            if !self_death && pre.updates_backlog != post.updates_backlog {
                return Err(viol("c09:stale-sender-changed-backlog", format!("datagram from superseded/Down sender {} changed the updates backlog", p.header.src.show())));
            }
        }
    }
    Ok(())
}

// ---------------------------------------------------------------- C19 ----

pub fn c19_step(cx: &StepCtx<'_, impl Sized>, codec: &FixCodec) -> Result<(), Viol> {
    for (to, d) in cx.out.sends() {
        let Ok(h) = codec.parse_header(&d[..]) else { continue };
        if let Err(e) = grammar::check_destination(&[cx.pre_view.id, cx.post_view.id], to, &h.message) {
            return Err(viol(
                &format!("c19:own-address-destination:{}", kind_name(&h.message)),
                format!("{e}: {}", show_dgram(codec, d)),
            ));
        }
    }
    Ok(())
}

pub fn kind_name(m: &Message<Id>) -> &'static str {
    match m {
        Message::Ping(_) => "Ping",
        Message::Ack(_) => "Ack",
        Message::PingReq { .. } => "PingReq",
        Message::IndirectPing { .. } => "IndirectPing",
        Message::IndirectAck { .. } => "IndirectAck",
        Message::ForwardedAck { .. } => "ForwardedAck",
        Message::Announce => "Announce",
        Message::Feed => "Feed",
        Message::Gossip => "Gossip",
        Message::Broadcast => "Broadcast",
        Message::TurnUndead => "TurnUndead",
    }
}

// ---------------------------------------------------------------- C07 ----

/// Grammar oracle applied to every datagram of a step.
pub fn c07_step(cx: &StepCtx<'_, impl Sized>, codec: &FixCodec, max_packet_pre: usize, max_packet_post: usize) -> Result<(), Viol> {
    let mut active: Vec<Id> = cx.pre_view.active.clone();
    active.extend(cx.post_view.active.iter().copied());
    // members renamed / upped mid-call are active at some point too
    for n in cx.out.notes() {
        if let N::MemberUp(i) | N::Rename(_, i) = n {
            active.push(*i);
        }
    }
    let snap_pre = cx.pre.f.verif_snapshot();
    let snap_post = cx.post.verif_snapshot();
    let mut incs = vec![snap_pre.incarnation, snap_post.incarnation];
    // a refutation bumps the incarnation mid-call: anything in between is a
    // value the instance really had
    let (lo, hi) = (snap_pre.incarnation.min(snap_post.incarnation), snap_pre.incarnation.max(snap_post.incarnation));
    for (to, d) in cx.out.sends() {
        let p = grammar::parse(codec, d);
        if let Ok(p) = &p {
            let i = p.header.src_incarnation;
            if p.header.src == cx.pre_view.id && cx.pre_view.id == cx.post_view.id && i > lo && i < hi {
                incs.push(i);
            }
        }
        let cxs = SenderCtx {
            codec,
            max_packet: max_packet_pre.max(max_packet_post),
            ids: [cx.pre_view.id, cx.post_view.id],
            incs: [incs[0], incs[1]],
            active: &active,
        };
        let res = grammar::check_emitted(&cxs, to, d);
        let res = match res {
            Err(e) if e.starts_with("src_incarnation") => {
                // accept any value the instance held during the call
                match &p {
                    Ok(pp) if incs.contains(&pp.header.src_incarnation) => Ok(()),
                    _ => Err(e),
                }
            }
            Err(e) => Err(e),
            Ok(_) => Ok(()),
        };
        if let Err(e) = res {
            let cls = e.split_whitespace().take(2).collect::<Vec<_>>().join("-");
            return Err(viol(&format!("c07:malformed:{cls}"), format!("{e}; datagram {:02x?}", d)));
        }
    }
    Ok(())
}

// ---------------------------------------------------------------- C10 ----

#[derive(Clone, Debug, PartialEq, Eq, Hash, Default)]
pub struct C10State {
    /// greatest incarnation the instance was told per identity
    pub told: BTreeMap<Id, u16>,
    /// the instance is Defunct (by notifications) under this identity
    pub defunct: bool,
}

pub fn c10_step(
    cx: &StepCtx<'_, impl Sized>,
    info: &InputInfo,
    st: &mut C10State,
    codec: &FixCodec,
    own_pre: (Id, u16),
    own_post: (Id, u16),
    conn_pre: Conn,
) -> Result<(), Viol> {
    // what it was told (every input, accepted or not)
    for (i, inc) in &info.mentioned {
        let e = st.told.entry(*i).or_insert(*inc);
        if *inc > *e {
            *e = *inc;
        }
    }
    match cx.ev {
        Ev::Timer(TimerKey::ChangeSuspectToDown { member, inc, .. }) if !cx.timer_was_outstanding => {
            // a fabricated timer is an input that names an incarnation
            let e = st.told.entry(*member).or_insert(*inc);
            if *inc > *e {
                *e = *inc;
            }
        }
        _ => {}
    }
    // walk the input the way the property describes it
    let mut cur = own_pre;
    let mut bump_cause = false;
    let mut must_exceed: Option<u16> = None;
    let mut deaths: Vec<(Id, bool)> = Vec::new(); // (identity that died, was defunct before)
    let mut dr: Vec<&N<Id>> = cx.out.notes().filter(|n| matches!(n, N::Defunct | N::Rejoin(_))).collect();
    dr.reverse();
    let dr_cell = std::cell::RefCell::new(dr);
    let unanswered = std::cell::Cell::new(0u32);
    let mut on_death = |cur: &mut (Id, u16), must_exceed: &mut Option<u16>| {
        match dr_cell.borrow_mut().pop() {
            Some(N::Rejoin(x)) => {
                deaths.push((cur.0, false));
                *cur = (*x, 0);
                *must_exceed = None;
            }
            Some(_) => {
                deaths.push((cur.0, true));
                *must_exceed = None;
            }
            None => {
                // learned that the current identity is dead, yet neither
                // renewed nor became defunct
                unanswered.set(unanswered.get() + 1);
            }
        }
    };
    let inactive_sender = info.is_data && info.admitted.is_some() && !info.sender_active;
    if inactive_sender {
        if info.turn_undead {
            on_death(&mut cur, &mut must_exceed);
        }
    } else {
        for u in &info.updates {
            if *u.id() != cur.0 {
                continue;
            }
            match u.state() {
                State::Alive => {}
                State::Down => on_death(&mut cur, &mut must_exceed),
                State::Suspect => {
                    let top = u.incarnation().max(cur.1);
                    if top == u16::MAX {
                        on_death(&mut cur, &mut must_exceed);
                    } else if u.incarnation() >= cur.1 {
                        bump_cause = true;
                        must_exceed = Some(must_exceed.map_or(u.incarnation(), |m: u16| m.max(u.incarnation())));
                        cur.1 = top + 1;
                    }
                }
            }
        }
        if info.turn_undead && info.sender_active {
            // handled only while connected; tolerate both outcomes
            let more = dr_cell.borrow().last().is_some();
            if more {
                on_death(&mut cur, &mut must_exceed);
            }
        }
    }
    if matches!(cx.ev, Ev::Leave) {
        on_death(&mut cur, &mut must_exceed);
    }
    if unanswered.get() > 0 && cx.out.res.is_ok() {
        return Err(viol(
            "c10:carries-on-under-dead-identity",
            format!("the input told the instance that its current identity {} is Down (or cannot be defended) {} time(s) without a Rejoin or Defunct: it carries on under a dead identity", own_pre.0.show(), unanswered.get()),
        ));
    }
    let id_changed = own_post.0 != own_pre.0;
    let reset_call = id_changed || (matches!(cx.ev, Ev::Reuse) && cx.out.res.is_ok());
    if reset_call {
        // a fresh identity starts at 0 (later suspicions in the same batch
        // may already have raised it)
        let later_bump = info.updates.iter().any(|u| *u.id() == own_post.0 && u.state() == State::Suspect);
        if own_post.1 != 0 && !later_bump {
            return Err(viol("c10:incarnation-not-reset", format!("identity {} starts at incarnation {} instead of 0", own_post.0.show(), own_post.1)));
        }
    } else {
        if own_post.1 < own_pre.1 {
            return Err(viol("c10:incarnation-decreased", format!("incarnation went from {} to {} under the same identity", own_pre.1, own_post.1)));
        }
        if own_post.1 > own_pre.1 && !bump_cause {
            return Err(viol("c10:incarnation-grew-without-cause", format!("incarnation grew {} -> {} without a suspicion of the current identity at an incarnation >= {}", own_pre.1, own_post.1, own_pre.1)));
        }
        if let Some(mx) = must_exceed {
            if own_post.1 <= mx {
                return Err(viol("c10:suspicion-not-refuted", format!("processed Suspect at incarnation {mx} but later headers carry incarnation {}", own_post.1)));
            }
        }
    }
    // never overstates what it was told about others
    for (_, d) in cx.out.sends() {
        let Ok(p) = grammar::parse(codec, d) else { continue };
        if let Some(us) = &p.updates {
            for u in us {
                if u.id().addr == own_pre.0.addr || u.id().addr == own_post.0.addr {
                    continue;
                }
                let told = st.told.get(u.id()).copied();
                if told.is_none_or(|t| u.incarnation() > t) {
                    return Err(viol(
                        "c10:overstated-incarnation",
                        format!("tells {} but was told at most incarnation {:?} for {}", show_member(u), told, u.id().show()),
                    ));
                }
            }
        }
    }
    // reaction to its own death
    for (n, (old, went_defunct)) in deaths.iter().enumerate() {
        if *went_defunct {
            continue;
        }
        // Rejoin: the new identity must differ from and win against the old one
        let new = cx
            .out
            .notes()
            .filter_map(|x| if let N::Rejoin(i) = x { Some(*i) } else { None })
            .nth(deaths[..n].iter().filter(|d| !d.1).count());
        let Some(new) = new else { continue };
        if new == *old || !new.win_addr_conflict(old) {
            return Err(viol("c10:rejoin-not-winning", format!("renewed identity {} does not differ from / win against {}", new.show(), old.show())));
        }
        if conn_pre != Conn::Defunct {
            // Down(old) must be in what it gossips next
            let mut seen_down = false;
            let mut any_gossip = false;
            for (_, d) in cx.out.sends() {
                if let Ok(p) = grammar::parse(codec, d) {
                    if p.header.src == new && grammar::piggybacks(&p.header.message) && !matches!(p.header.message, Message::Feed) {
                        any_gossip = true;
                        if p.updates.iter().flatten().any(|u| u.id() == old && u.state() == State::Down) {
                            seen_down = true;
                        }
                    }
                }
            }
            if !any_gossip {
                // nobody to gossip to in that call: ask a clone to gossip to one peer
                let mut c = cx.post.clone();
                let z = id(9, 0);
                let _ = run_event(&mut c, &Ev::Apply(vec![Member::new(z, 0, State::Alive)], false), &[]);
                let o = run_event(&mut c, &Ev::Gossip, &[]);
                for (_, d) in o.sends() {
                    if let Ok(p) = grammar::parse(codec, d) {
                        if p.updates.iter().flatten().any(|u| u.id() == old && u.state() == State::Down) {
                            seen_down = true;
                        }
                    }
                }
            }
            if !seen_down && n + 1 == deaths.len() {
                return Err(viol("c10:old-identity-not-gossiped-down", format!("after renewing to {} the old identity {} is not gossiped as Down", new.show(), old.show())));
            }
        }
    }
    // Defunct bookkeeping + "never carries on as active under a dead identity"
    let was_defunct = st.defunct;
    for nn in cx.out.notes() {
        match nn {
            N::Defunct => st.defunct = true,
            N::Rejoin(_) => st.defunct = false,
            _ => {}
        }
    }
    if reset_call {
        st.defunct = cx.out.notes().any(|x| matches!(x, N::Defunct)) && !cx.out.notes().any(|x| matches!(x, N::Rejoin(_))) && !matches!(cx.ev, Ev::ChangeId(_) | Ev::Reuse);
        if matches!(cx.ev, Ev::ChangeId(_) | Ev::Reuse) {
            // notifications after the reset
            st.defunct = cx.out.notes().any(|x| matches!(x, N::Defunct));
        }
    }
    if was_defunct && st.defunct && !reset_call {
        for (_, d) in cx.out.sends() {
            let Ok(h) = codec.parse_header(&d[..]) else { continue };
            let active_kind = matches!(
                h.message,
                Message::Ack(_) | Message::Feed | Message::IndirectAck { .. } | Message::IndirectPing { .. } | Message::ForwardedAck { .. } | Message::Ping(_) | Message::PingReq { .. }
            );
            if active_kind {
                return Err(viol(
                    &format!("c10:defunct-but-active:{}", kind_name(&h.message)),
                    format!("Defunct instance carries on: sent {}", show_dgram(codec, d)),
                ));
            }
        }
    }
    Ok(())
}
