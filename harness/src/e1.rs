//! E1 — explicit-state exploration of ONE real `Foca` instance against an
//! adversarial environment. A transition is one real call; breadth-first,
//! exact deduplication on (internal snapshot, handler state, monitor state,
//! outstanding timers); every RNG draw is a choice point.
use crate::core::*;
use crate::doubles::*;
use rayon::prelude::*;
use std::collections::HashSet;
use std::hash::{Hash, Hasher};
use std::sync::atomic::{AtomicU64, Ordering};
use std::sync::{Arc, Mutex};
use std::time::Instant;

#[derive(Clone, Debug, serde::Serialize, serde::Deserialize)]
pub struct HistStep {
    pub ev: Ev,
    pub script: Vec<u32>,
}

pub struct Hist {
    pub parent: Option<Arc<Hist>>,
    pub step: HistStep,
}

pub fn hist_vec(h: &Option<Arc<Hist>>) -> Vec<HistStep> {
    let mut v = Vec::new();
    let mut cur = h.clone();
    while let Some(n) = cur {
        v.push(n.step.clone());
        cur = n.parent.clone();
    }
    v.reverse();
    v
}

/// A violation found by a monitor.
#[derive(Clone, Debug)]
pub struct Viol {
    /// stable symptom class (used to match known findings)
    pub signature: String,
    pub what: String,
}

pub fn viol(signature: &str, what: String) -> Viol {
    Viol { signature: signature.to_string(), what }
}

#[derive(Clone, Copy, Debug, PartialEq, Eq)]
pub enum TimerPolicy {
    /// any outstanding timer may fire at any time (arbitrary order and delay)
    AnyOrder,
    /// only the outstanding timer with the earliest deadline may fire
    /// (ties broken by the documented `Timer` order); `Sleep` events move the
    /// clock so that timers can be arbitrarily late
    DeadlineOrder,
    /// the engine offers no timer events (the spec's menu does)
    Manual,
}

/// Outstanding timer: (deadline relative to the harness clock, timer).
pub type Pending = (i64, TimerKey);

pub struct Node<M> {
    pub f: F,
    pub mon: M,
    pub timers: Vec<Pending>,
    pub hist: Option<Arc<Hist>>,
    pub depth: usize,
}

pub struct StepCtx<'a, M> {
    pub pre: &'a Node<M>,
    pub pre_view: &'a View,
    pub ev: &'a Ev,
    pub out: &'a StepOut,
    pub post: &'a F,
    pub post_view: &'a View,
    /// the timer fired by this event was outstanding (scheduled by Foca and
    /// not yet delivered)
    pub timer_was_outstanding: bool,
    /// outstanding timers after this step
    pub post_timers: &'a [Pending],
    /// RNG words the call consumed
    pub script: &'a [u32],
}

pub trait Spec: Sync {
    type Mon: Clone + Hash + Send + Sync;
    fn name(&self) -> String;
    fn codec(&self) -> FixCodec;
    fn fresh(&self) -> (F, Self::Mon);
    /// prefix histories (from the fresh instance) whose end states are also
    /// used as starting points
    fn seeds(&self) -> Vec<Vec<HistStep>> {
        vec![]
    }
    fn timer_policy(&self) -> TimerPolicy {
        TimerPolicy::AnyOrder
    }
    /// sleep amounts offered in DeadlineOrder mode
    fn sleeps(&self) -> Vec<i64> {
        vec![]
    }
    fn rng_menu(&self) -> &[u32];
    /// events besides the engine-provided timer events
    fn menu(&self, node: &Node<Self::Mon>, view: &View) -> Vec<Ev>;
    /// transition oracle; updates the monitor state
    fn step(&self, cx: &StepCtx<'_, Self::Mon>, mon: &mut Self::Mon) -> Result<(), Viol>;
    /// state invariant, evaluated once per new state
    fn state(&self, _node: &Node<Self::Mon>, _view: &View) -> Result<(), Viol> {
        Ok(())
    }
    /// Should successors of this state be explored?
    fn expand(&self, _node: &Node<Self::Mon>) -> bool {
        true
    }
}

#[derive(Clone, Debug)]
pub struct Found {
    pub viol: Viol,
    pub history: Vec<HistStep>,
    pub depth: usize,
}

#[derive(Default, Clone, Debug)]
pub struct Stats {
    pub states: u64,
    pub transitions: u64,
    pub depth_completed: usize,
    pub per_depth: Vec<(usize, u64, u64)>,
    pub capped: Option<String>,
    pub exhausted: bool,
    pub wall_s: f64,
    pub samples: Vec<Vec<String>>,
    pub max_draws_in_step: usize,
}

pub struct Limits {
    pub max_depth: usize,
    pub max_states: u64,
    pub max_wall_s: f64,
    /// depth bound applied to states reached from seeds (counted from the seed)
    pub seed_depth: usize,
}

struct Seen {
    shards: Vec<Mutex<HashSet<u128>>>,
}
impl Seen {
    fn new() -> Self {
        Seen { shards: (0..256).map(|_| Mutex::new(HashSet::new())).collect() }
    }
    fn insert(&self, k: u128) -> bool {
        self.shards[(k as usize) & 255].lock().unwrap().insert(k)
    }
}

fn key_of<M: Hash>(f: &F, mon: &M, timers: &[Pending], extra: u8) -> u128 {
    struct K<'a, M>(&'a foca::VerifSnapshot<Id>, &'a TableHandler, &'a M, &'a [Pending], u8);
    impl<M: Hash> Hash for K<'_, M> {
        fn hash<H: Hasher>(&self, h: &mut H) {
            self.0.hash(h);
            self.1.hash(h);
            self.2.hash(h);
            self.3.hash(h);
            self.4.hash(h);
        }
    }
    let snap = f.verif_snapshot();
    hash128(&K(&snap, f.verif_handler(), mon, timers, extra))
}

/// Documented order of simultaneous timers (`Timer::cmp`).
pub fn timer_seq(t: &TimerKey) -> u8 {
    match t {
        TimerKey::SendIndirectProbe { .. } => 0,
        TimerKey::ProbeRandomMember(_) => 1,
        TimerKey::ChangeSuspectToDown { .. } => 2,
        TimerKey::PeriodicAnnounce(_) => 3,
        TimerKey::PeriodicGossip(_) => 4,
        TimerKey::RemoveDown(_) => 5,
        TimerKey::PeriodicAnnounceDown(_) => 6,
    }
}

fn normalise(timers: &mut Vec<Pending>, policy: TimerPolicy) {
    if policy != TimerPolicy::DeadlineOrder {
        for t in timers.iter_mut() {
            t.0 = 0;
        }
    }
    timers.sort();
}

pub struct Succ<M> {
    pub node: Node<M>,
}

/// Bookkeeping + oracle for one executed call.
fn apply_run<S: Spec>(
    spec: &S,
    pre: &Node<S::Mon>,
    pre_view: &View,
    ev: &Ev,
    script: &[u32],
    out: StepOut,
    f: F,
) -> Result<Node<S::Mon>, Found> {
    let policy = spec.timer_policy();
    let mut timers = pre.timers.clone();
    let mut was_outstanding = false;
    if let Ev::Sleep(s) = ev {
        for t in timers.iter_mut() {
            t.0 -= *s;
        }
    }
    if let Ev::Timer(t) = ev {
        if let Some(pos) = timers.iter().position(|(_, k)| k == t) {
            let (d, _) = timers.remove(pos);
            was_outstanding = true;
            if policy == TimerPolicy::DeadlineOrder && d > 0 {
                // the clock advances to the deadline
                for x in timers.iter_mut() {
                    x.0 -= d;
                }
            }
        }
    }
    for (after, t) in out.timers() {
        timers.push((after.as_millis() as i64, t));
    }
    normalise(&mut timers, policy);
    let post_view = View::of(&f);
    let mut mon = pre.mon.clone();
    let hist = Some(Arc::new(Hist {
        parent: pre.hist.clone(),
        step: HistStep { ev: ev.clone(), script: script.to_vec() },
    }));
    let verdict = if let Some(p) = &out.panic {
        Err(viol("panic", format!("Foca panicked: {p}")))
    } else if matches!(ev, Ev::Sleep(_)) {
        Ok(())
    } else {
        let cx = StepCtx {
            pre,
            pre_view,
            ev,
            out: &out,
            post: &f,
            post_view: &post_view,
            timer_was_outstanding: was_outstanding,
            post_timers: &timers,
            script,
        };
        spec.step(&cx, &mut mon)
    };
    match verdict {
        Err(v) => Err(Found { viol: v, history: hist_vec(&hist), depth: pre.depth + 1 }),
        Ok(()) => Ok(Node { f, mon, timers, hist, depth: pre.depth + 1 }),
    }
}

/// Apply one event to `pre` under every RNG answer.
fn expand_event<S: Spec>(
    spec: &S,
    pre: &Node<S::Mon>,
    pre_view: &View,
    ev: &Ev,
    transitions: &AtomicU64,
    max_draws: &AtomicU64,
    out_nodes: &mut Vec<Node<S::Mon>>,
    found: &mut Vec<Found>,
) {
    let words = spec.rng_menu();
    let mut stack: Vec<Vec<u32>> = vec![vec![]];
    while let Some(script) = stack.pop() {
        let mut f = pre.f.clone();
        let out = run_event(&mut f, ev, &script);
        if out.extra_draws > 0 && out.panic.is_none() {
            // a draw beyond the script: branch on the first unscripted draw
            for &w in words.iter().rev() {
                let mut s = script.clone();
                s.push(w);
                stack.push(s);
            }
            continue;
        }
        transitions.fetch_add(1, Ordering::Relaxed);
        max_draws.fetch_max(out.draws as u64, Ordering::Relaxed);
        match apply_run(spec, pre, pre_view, ev, &script, out, f) {
            Ok(n) => out_nodes.push(n),
            Err(fv) => found.push(fv),
        }
    }
}

fn timer_events<M>(node: &Node<M>, policy: TimerPolicy) -> Vec<Ev> {
    match policy {
        TimerPolicy::Manual => vec![],
        TimerPolicy::AnyOrder => {
            let mut seen: Vec<TimerKey> = Vec::new();
            for (_, t) in &node.timers {
                if !seen.contains(t) {
                    seen.push(*t);
                }
            }
            seen.into_iter().map(Ev::Timer).collect()
        }
        TimerPolicy::DeadlineOrder => {
            // earliest deadline; among equal deadlines the documented order;
            // among equal (deadline, seq) any
            let Some(best) = node.timers.iter().map(|(d, t)| (*d, timer_seq(t))).min() else {
                return vec![];
            };
            let mut seen: Vec<TimerKey> = Vec::new();
            for (d, t) in &node.timers {
                if (*d, timer_seq(t)) == best && !seen.contains(t) {
                    seen.push(*t);
                }
            }
            seen.into_iter().map(Ev::Timer).collect()
        }
    }
}

fn run_scripted<S: Spec>(spec: &S, pre: &Node<S::Mon>, st: &HistStep, idx: usize) -> Result<(StepOut, Node<S::Mon>), Found> {
    let view = View::of(&pre.f);
    let mut f = pre.f.clone();
    let out = run_event(&mut f, &st.ev, &st.script);
    if out.panic.is_none() && (out.extra_draws > 0 || out.draws != st.script.len()) {
        return Err(Found {
            viol: viol(
                "machinery:replay-divergence",
                format!("step {idx}: script has {} words but the call drew {}", st.script.len(), out.draws),
            ),
            history: vec![st.clone()],
            depth: idx + 1,
        });
    }
    let o2 = out.clone();
    apply_run(spec, pre, &view, &st.ev, &st.script, out, f).map(|n| (o2, n))
}

pub fn replay_prefix<S: Spec>(spec: &S, steps: &[HistStep]) -> Result<Node<S::Mon>, Found> {
    let (f, mon) = spec.fresh();
    let mut node = Node { f, mon, timers: vec![], hist: None, depth: 0 };
    for (i, st) in steps.iter().enumerate() {
        let (_, n) = run_scripted(spec, &node, st, i)?;
        let v = View::of(&n.f);
        if let Err(vl) = spec.state(&n, &v) {
            return Err(Found { viol: vl, history: hist_vec(&n.hist), depth: i + 1 });
        }
        node = n;
    }
    node.depth = 0;
    Ok(node)
}

/// Resident set size of this process in GB (0 if unknown).
pub fn rss_gb() -> f64 {
    std::fs::read_to_string("/proc/self/statm")
        .ok()
        .and_then(|s| s.split_whitespace().nth(1).and_then(|p| p.parse::<f64>().ok()))
        .map(|pages| pages * 4096.0 / 1e9)
        .unwrap_or(0.0)
}

pub fn explore<S: Spec>(spec: &S, lim: &Limits) -> (Stats, Vec<Found>) {
    let t0 = Instant::now();
    let policy = spec.timer_policy();
    let seen = Seen::new();
    let transitions = AtomicU64::new(0);
    let max_draws = AtomicU64::new(0);
    let mut stats = Stats::default();
    let mut found_all: Vec<Found> = Vec::new();

    // level 0: fresh + seeds
    let mut frontier: Vec<Node<S::Mon>> = Vec::new();
    let (f, mon) = spec.fresh();
    frontier.push(Node { f, mon, timers: vec![], hist: None, depth: 0 });
    let mut seed_nodes: Vec<Node<S::Mon>> = Vec::new();
    for s in spec.seeds() {
        match replay_prefix(spec, &s) {
            Ok(mut n) => {
                n.depth = lim.max_depth.saturating_sub(lim.seed_depth);
                seed_nodes.push(n)
            }
            Err(fv) => found_all.push(fv),
        }
    }
    if !found_all.is_empty() {
        stats.wall_s = t0.elapsed().as_secs_f64();
        return (stats, found_all);
    }
    // seeds join the frontier at the depth where they have `seed_depth`
    // levels left; keep them aside until then
    let mut pending_seeds = seed_nodes;
    let mut states: u64 = 0;
    for n in &frontier {
        if seen.insert(key_of(&n.f, &n.mon, &n.timers, 0)) {
            states += 1;
        }
    }
    for depth in 0..lim.max_depth {
        // inject seeds whose start depth is this level
        let mut i = 0;
        while i < pending_seeds.len() {
            if pending_seeds[i].depth <= depth {
                let mut n = pending_seeds.swap_remove(i);
                n.depth = depth;
                if seen.insert(key_of(&n.f, &n.mon, &n.timers, 0)) {
                    states += 1;
                    let view = View::of(&n.f);
                    if let Err(v) = spec.state(&n, &view) {
                        found_all.push(Found { viol: v, history: hist_vec(&n.hist), depth });
                    }
                    frontier.push(n);
                }
            } else {
                i += 1;
            }
        }
        if frontier.is_empty() && pending_seeds.is_empty() {
            stats.exhausted = true;
            break;
        }
        let level_t0 = transitions.load(Ordering::Relaxed);
        let sleeps = spec.sleeps();
        let over = std::sync::atomic::AtomicBool::new(false);
        let guard_tick = AtomicU64::new(1);
        let rss_cap: f64 = std::env::var("VERIF_RSS_GB").ok().and_then(|s| s.parse().ok()).unwrap_or(14.0);
        let results: Vec<(Vec<Node<S::Mon>>, Vec<Found>)> = frontier
            .par_iter()
            .map(|node| {
                let mut outs = Vec::new();
                let mut found = Vec::new();
                // memory / wall guards inside the level: a level that is cut
                // short is reported as not covered
                if over.load(Ordering::Relaxed) {
                    return (outs, found);
                }
                if guard_tick.fetch_add(1, Ordering::Relaxed) % 512 == 0 && (rss_gb() > rss_cap || t0.elapsed().as_secs_f64() > lim.max_wall_s * 1.5) {
                    over.store(true, Ordering::Relaxed);
                    return (outs, found);
                }
                if !spec.expand(node) {
                    return (outs, found);
                }
                let view = View::of(&node.f);
                let mut evs = spec.menu(node, &view);
                evs.extend(timer_events(node, policy));
                if policy == TimerPolicy::DeadlineOrder && !node.timers.is_empty() {
                    // let time pass without delivering anything (late timers)
                    evs.extend(sleeps.iter().map(|s| Ev::Sleep(*s)));
                }
                for ev in &evs {
                    expand_event(spec, node, &view, ev, &transitions, &max_draws, &mut outs, &mut found);
                }
                // dedup + state invariant
                let mut fresh_nodes = Vec::with_capacity(outs.len());
                for n in outs {
                    if seen.insert(key_of(&n.f, &n.mon, &n.timers, 0)) {
                        let v = View::of(&n.f);
                        match spec.state(&n, &v) {
                            Ok(()) => fresh_nodes.push(n),
                            Err(vl) => found.push(Found { viol: vl, history: hist_vec(&n.hist), depth: n.depth }),
                        }
                    }
                }
                (fresh_nodes, found)
            })
            .collect();
        let mut next: Vec<Node<S::Mon>> = Vec::new();
        for (ns, fs) in results {
            states += ns.len() as u64;
            next.extend(ns);
            found_all.extend(fs);
        }
        let level_tr = transitions.load(Ordering::Relaxed) - level_t0;
        if over.load(Ordering::Relaxed) && found_all.is_empty() {
            stats.capped = Some(format!(
                "memory cap ({rss_cap:.0} GB resident) or wall cap hit while expanding depth {}: that level is NOT covered; fully covered depth = {}",
                depth + 1,
                depth
            ));
            stats.per_depth.push((depth + 1, next.len() as u64, level_tr));
            break;
        }
        stats.per_depth.push((depth + 1, next.len() as u64, level_tr));
        stats.depth_completed = depth + 1;
        // a few written-out histories for the evidence file
        if stats.samples.len() < 6 {
            if let Some(n) = next.last() {
                let c = spec.codec();
                stats.samples.push(hist_vec(&n.hist).iter().map(|s| show_ev(&c, &s.ev)).collect());
            }
        }
        frontier = next;
        if !found_all.is_empty() {
            break;
        }
        if depth + 1 == lim.max_depth {
            // the bound itself is reached: nothing was cut
            break;
        }
        if states > lim.max_states {
            stats.capped = Some(format!("state cap {} reached after depth {}", lim.max_states, depth + 1));
            break;
        }
        if t0.elapsed().as_secs_f64() > lim.max_wall_s {
            stats.capped = Some(format!("wall cap {}s reached after depth {}", lim.max_wall_s, depth + 1));
            break;
        }
    }
    if frontier.is_empty() && pending_seeds.is_empty() && found_all.is_empty() {
        stats.exhausted = true;
    }
    // give the frontier's memory back to the OS before the next exploration
    // (the resident-size guard would otherwise see this one's leftovers)
    drop(frontier);
    drop(pending_seeds);
    extern "C" {
        fn malloc_trim(pad: usize) -> i32;
    }
    unsafe {
        malloc_trim(0);
    }
    stats.states = states;
    stats.transitions = transitions.load(Ordering::Relaxed);
    stats.max_draws_in_step = max_draws.load(Ordering::Relaxed) as usize;
    stats.wall_s = t0.elapsed().as_secs_f64();
    // deterministic order of reported violations
    found_all.sort_by(|a, b| {
        (a.depth, &a.viol.signature, format!("{:?}", a.history)).cmp(&(b.depth, &b.viol.signature, format!("{:?}", b.history)))
    });
    (stats, found_all)
}

/// Replay a recorded history step by step, printing what happens. Returns
/// the violation the monitor raises, if any.
pub fn replay_verbose<S: Spec>(spec: &S, steps: &[HistStep]) -> Option<Viol> {
    let codec = spec.codec();
    let (f, mon) = spec.fresh();
    let mut node = Node { f, mon, timers: vec![], hist: None, depth: 0 };
    println!("start: {}", View::of(&node.f).show());
    for (i, st) in steps.iter().enumerate() {
        println!("step {}: {}   rng={:?}", i + 1, show_ev(&codec, &st.ev), st.script);
        // show effects even if the monitor objects
        {
            let mut f = node.f.clone();
            let out = run_event(&mut f, &st.ev, &st.script);
            println!("    -> {:?}", out.res);
            for e in &out.effects {
                println!("    {}", show_effect(&codec, e));
            }
            if let Some(p) = &out.panic {
                println!("    PANIC: {p}");
            }
            println!("    state: {}", View::of(&f).show());
        }
        match run_scripted(spec, &node, st, i) {
            Err(fv) => {
                println!("    MONITOR: [{}] {}", fv.viol.signature, fv.viol.what);
                return Some(fv.viol);
            }
            Ok((_, n)) => {
                let v = View::of(&n.f);
                if let Err(vl) = spec.state(&n, &v) {
                    println!("    STATE INVARIANT: [{}] {}", vl.signature, vl.what);
                    return Some(vl);
                }
                node = n;
            }
        }
    }
    None
}
