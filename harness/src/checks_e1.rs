//! The E1-based checks: alphabets, seeds and bounds per property.
use crate::core::*;
use crate::doubles::*;
use crate::e1::*;
use crate::report::Report;
use crate::rng;
use crate::spec_core::*;
use foca::{Member, State};
use serde_json::json;

pub const A: u8 = 0;
pub const B: u8 = 1;
pub const C: u8 = 2;
pub const D: u8 = 3;

pub fn al(i: Id) -> Member<Id> {
    Member::new(i, 0, State::Alive)
}
pub fn mm(i: Id, inc: u16, st: State) -> Member<Id> {
    Member::new(i, inc, st)
}

pub struct Variant {
    pub spec: CoreSpec,
    pub lim: Limits,
}

fn lim(depth: usize, seed_depth: usize, states: u64, wall: f64) -> Limits {
    Limits { max_depth: depth, seed_depth, max_states: states, max_wall_s: wall }
}

fn is_thorough(tier: &str) -> bool {
    tier == "thorough"
}

/// Run all variants of a property, fold the statistics into one report.
pub fn run_variants(prop: &str, tier: &str, variants: Vec<Variant>, rep: &mut Report) {
    let mut all_exhaustive = true;
    let mut per_variant = Vec::new();
    for v in variants {
        let g = v.spec.words.len();
        let (stats, found) = explore(&v.spec, &v.lim);
        rep.states += stats.states;
        rep.transitions += stats.transitions;
        if stats.capped.is_some() {
            all_exhaustive = false;
        }
        per_variant.push(json!({
            "variant": v.spec.label,
            "states": stats.states,
            "transitions": stats.transitions,
            "depth_completed": stats.depth_completed,
            "depth_bound": v.lim.max_depth,
            "seed_depth": v.lim.seed_depth,
            "seeds": v.spec.seed_hists.len(),
            "per_depth(new_states,transitions)": stats.per_depth.iter().map(|(d, s, t)| json!([d, s, t])).collect::<Vec<_>>(),
            "cap_hit": stats.capped,
            "state_space_exhausted_below_bound": stats.exhausted,
            "rng_menu_words": g,
            "max_rng_draws_in_one_call": stats.max_draws_in_step,
            "wall_s": stats.wall_s,
        }));
        // the deepest histories recorded
        for s in stats.samples.iter().rev().take(2) {
            rep.sample(json!({"variant": v.spec.label, "history": s}));
        }
        for f in found.iter().take(40) {
            let codec = v.spec.codec;
            let shown: Vec<String> = f.history.iter().map(|s| format!("{}  rng={:?}", show_ev(&codec, &s.ev), s.script)).collect();
            rep.violate(
                &f.viol.signature,
                format!("{} [variant {}; after {} events: {}]", f.viol.what, v.spec.label, f.history.len(), shown.join(" ; ")),
                json!({"engine": "e1", "property": prop, "tier": tier, "variant": v.spec.label, "history": f.history, "shown": shown}),
            );
        }
    }
    rep.set("variants", json!(per_variant));
    rep.exhaustive = all_exhaustive;
    rep.rule = "breadth-first over all event sequences of the per-property alphabet up to the depth bound, every RNG answer a branch, exact deduplication on (internal snapshot, handler, monitor, outstanding timers); a state is non-trivial/distinct iff its 128-bit key is new".into();
    rep.assume("identity domain: 3-4 addresses x 2-3 generations; incarnations from a small set plus the u16 boundaries");
    rep.assume("128-bit state hashing without collision detection");
    rep.assume("test doubles (codec, runtime, handler, identity) are total and trusted");
}

pub fn calibrated(rep: &mut Report, g: usize, l: usize) -> Vec<u32> {
    let words = rng::menu(g, l);
    match rng::calibrate(&words, g, l) {
        Ok(s) => rep.set("rng_calibration", json!(s)),
        Err(e) => rep.machinery(format!("RNG menu calibration failed: {e}")),
    }
    words
}

// ------------------------------------------------------------------ C19 --

pub fn c19_variants(tier: &str, words: &[u32]) -> Vec<Variant> {
    let th = is_thorough(tier);
    let mut out = Vec::new();
    // every combination of the three periodic tasks
    for mask in 0..8u8 {
        if !th && ![7u8, 2, 0].contains(&mask) {
            continue;
        }
        let me = id(A, 1).with(Renew::Next);
        let cfg = Cfg {
            notify_down: true,
            announce: (mask & 1 != 0).then_some((500, 1)),
            announce_down: (mask & 2 != 0).then_some((500, 2)),
            gossip: (mask & 4 != 0).then_some((200, 1)),
            ..Cfg::default()
        };
        let mut s = CoreSpec::new(&format!("c19-tasks{mask}"), me, cfg);
        s.words = words.to_vec();
        s.mons.c19 = true;
        s.alpha = Alpha {
            // also datagrams FROM older / newer identities of the own address
            // (echoes of a previous life), addressed to stale identities too
            srcs: vec![(id(B, 0), 0, true), (id(C, 0), 0, true), (id(A, 0), 0, false), (id(A, 2), 0, false)],
            own_addr_srcs: true,
            stale_dst_gens: vec![-1, 1],
            // relay requests whose third party is another identity of the own
            // address: identities named in a header must not become members
            kinds: vec![
                Kind::Gossip,
                Kind::Ping,
                Kind::Announce,
                Kind::PingReq(id(A, 0)),
                Kind::IndirectPing(id(A, 0)),
                Kind::IndirectPing(id(A, 2)),
                Kind::IndirectAck(id(A, 0)),
                Kind::FwdAck(0),
            ],
            payload_kinds: vec![Kind::Gossip],
            payloads: vec![
                vec![],
                vec![mm(id(A, 0), 0, State::Alive)],
                vec![mm(id(A, 0), 0, State::Down)],
                vec![mm(id(A, 2), 0, State::Alive)],
                vec![mm(id(A, 2), 0, State::Down)],
                vec![mm(id(A, 3), 0, State::Alive)],
                vec![mm(id(C, 0), 0, State::Down)],
            ],
            self_rel: vec![(0, State::Down), (0, State::Suspect)],
            api: vec![Ev::Gossip, Ev::Leave, Ev::Broadcast],
            change_gens: vec![1],
            ..Alpha::default()
        };
        // Ping/Announce only with the empty payload: they differ from Gossip
        // in the reply only
        let mut sb = SeedBuilder::new(&s);
        sb.ev(Ev::Apply(vec![al(id(B, 0)), al(id(C, 0))], true));
        s.seed_hists.push(sb.done());
        let mut sb = SeedBuilder::new(&s);
        sb.ev(Ev::Apply(vec![al(id(B, 0)), mm(id(A, 0), 0, State::Alive)], true));
        s.seed_hists.push(sb.done());
        // more Down records than an announce-to-down round picks, one of them
        // a previous identity of the instance itself
        let mut sb = SeedBuilder::new(&s);
        sb.ev(Ev::Apply(vec![al(id(B, 0)), mm(id(C, 0), 0, State::Down), mm(id(D, 0), 0, State::Down), mm(id(A, 0), 0, State::Alive)], true));
        s.seed_hists.push(sb.done());
        let l = if th { lim(6, 5, 6_000_000, 600.0) } else { lim(4, 3, 1_500_000, 120.0) };
        out.push(Variant { spec: s, lim: l });
    }
    out
}

pub fn c19(tier: &str) -> Report {
    let mut rep = Report::new("C19", tier, "model_checking");
    let words = calibrated(&mut rep, 4, 3);
    run_variants("C19", tier, c19_variants(tier, &words), &mut rep);
    rep
}

// ------------------------------------------------------- shared pieces --

/// Formed start states built by real calls (DESIGN 2.5).
fn formed_seeds(s: &CoreSpec, which: &[&str]) -> Vec<Vec<HistStep>> {
    let mut out = Vec::new();
    let b0 = id(B, 0);
    let c0 = id(C, 0);
    for w in which {
        let mut sb = SeedBuilder::new(s);
        match *w {
            // connected with two peers
            "two-peers" => {
                sb.ev(Ev::Apply(vec![al(b0), al(c0)], true));
            }
            // one peer only
            "one-peer" => {
                sb.ev(Ev::Apply(vec![al(b0)], true));
            }
            // mid-probe: the probe timer fired, Ping is out
            "mid-probe" => {
                sb.ev(Ev::Apply(vec![al(b0), al(c0)], true));
                sb.fire(|t| matches!(t, TimerKey::ProbeRandomMember(_)));
            }
            // indirect stage reached, no ack yet
            "indirect" => {
                sb.ev(Ev::Apply(vec![al(b0), al(c0)], true));
                sb.fire(|t| matches!(t, TimerKey::ProbeRandomMember(_)));
                sb.fire(|t| matches!(t, TimerKey::SendIndirectProbe { .. }));
            }
            // one peer suspected, its timeout outstanding
            "suspected" => {
                sb.ev(Ev::Apply(vec![al(b0), al(c0)], true));
                sb.fire(|t| matches!(t, TimerKey::ProbeRandomMember(_)));
                sb.fire(|t| matches!(t, TimerKey::SendIndirectProbe { .. }));
                sb.fire(|t| matches!(t, TimerKey::ProbeRandomMember(_)));
            }
            // suspected with a single peer (its Down makes the instance idle)
            "suspected-single" => {
                sb.ev(Ev::Apply(vec![al(b0)], true));
                sb.fire(|t| matches!(t, TimerKey::ProbeRandomMember(_)));
                sb.fire(|t| matches!(t, TimerKey::SendIndirectProbe { .. }));
                sb.fire(|t| matches!(t, TimerKey::ProbeRandomMember(_)));
            }
            // defunct after leaving
            "defunct" => {
                sb.ev(Ev::Apply(vec![al(b0), al(c0)], true));
                sb.ev(Ev::Leave);
            }
            // just renamed by the user
            "renamed" => {
                sb.ev(Ev::Apply(vec![al(b0), al(c0)], true));
                let me = sb.view().id;
                sb.ev(Ev::ChangeId(Id { gen: me.gen + 1, ..me }));
            }
            // a peer is Down with its forget-timer outstanding
            "peer-down" => {
                sb.ev(Ev::Apply(vec![al(b0), al(c0)], true));
                sb.ev(Ev::Apply(vec![mm(b0, 0, State::Down)], true));
            }
            // long-lived instances: the 8-bit timer token is about to wrap
            // (254: active, 255: defunct after leaving)
            "aged-254" => {
                sb.ev(Ev::Apply(vec![al(b0), al(c0)], true));
                sb.age_token(254);
            }
            "aged-255" => {
                sb.ev(Ev::Apply(vec![al(b0), al(c0)], true));
                sb.age_token(255);
            }
            _ => panic!("unknown seed {w}"),
        }
        out.push(sb.done());
    }
    out
}

fn base_alpha() -> Alpha {
    Alpha {
        srcs: vec![(id(B, 0), 0, true), (id(B, 0), 1, false), (id(B, 1), 0, false), (id(C, 0), 0, true)],
        kinds: vec![Kind::Gossip, Kind::Ping, Kind::Announce, Kind::TurnUndead],
        payload_kinds: vec![Kind::Gossip],
        payloads: vec![
            vec![],
            vec![mm(id(B, 0), 0, State::Suspect)],
            vec![mm(id(B, 0), 0, State::Down)],
            vec![mm(id(B, 1), 0, State::Alive)],
            vec![mm(id(C, 0), 1, State::Alive)],
            vec![mm(id(C, 0), 0, State::Down)],
            vec![mm(id(A, 0), 0, State::Alive)],
            vec![mm(id(A, 2), 0, State::Down)],
            // a NEWER identity of the instance's own address, claimed alive
            vec![mm(id(A, 2), 0, State::Alive)],
            // the active set empties and refills within one call
            vec![mm(id(B, 0), 0, State::Down), mm(id(C, 0), 0, State::Down), mm(id(D, 0), 0, State::Alive)],
        ],
        self_rel: vec![(0, State::Down), (0, State::Suspect)],
        self_abs: vec![(u16::MAX, State::Suspect)],
        self_via_apply: true,
        applies: vec![
            (vec![al(id(C, 0))], true),
            (vec![mm(id(B, 0), 0, State::Down), mm(id(C, 0), 1, State::Suspect)], false),
        ],
        api: vec![Ev::Leave, Ev::Reuse, Ev::Gossip],
        change_gens: vec![1, -1],
        ..Alpha::default()
    }
}

// ------------------------------------------------------------------ C08 --

pub fn c08_variants(tier: &str, words: &[u32]) -> Vec<Variant> {
    let th = is_thorough(tier);
    let mut out = Vec::new();
    for (pol, nd) in [(Renew::None, false), (Renew::Next, true)] {
        let me = id(A, 1).with(pol);
        let cfg = Cfg { notify_down: nd, ..Cfg::default() };
        let mut s = CoreSpec::new(&format!("c08-{pol:?}-nd{}", nd as u8), me, cfg);
        s.words = words.to_vec();
        s.mons.c08 = true;
        s.mons.c08_twin = true;
        s.alpha = base_alpha();
        // taking over the ADDRESS of a (possibly still listed) peer: the
        // notification mirror must keep matching the getters even then
        s.alpha.api.push(Ev::ChangeId(id(B, 7).with(pol)));
        s.seed_hists = formed_seeds(&s, &["two-peers", "mid-probe", "suspected", "suspected-single", "defunct", "renamed", "peer-down"]);
        let l = if th { lim(5, 4, 8_000_000, 900.0) } else { lim(3, 3, 2_000_000, 120.0) };
        out.push(Variant { spec: s, lim: l });
    }
    out
}

pub fn c08(tier: &str) -> Report {
    let mut rep = Report::new("C08", tier, "model_checking");
    let words = calibrated(&mut rep, 4, 3);
    run_variants("C08", tier, c08_variants(tier, &words), &mut rep);
    rep.assume("'randomly far beyond the depth bound' (quantifier text) is not done: sampling is outside the model-checking family");
    rep
}

// ------------------------------------------------------------------ C09 --

pub fn c09_variants(tier: &str, words: &[u32]) -> Vec<Variant> {
    let th = is_thorough(tier);
    let mut out = Vec::new();
    for (pol, nd) in [(Renew::Next, true), (Renew::None, false)] {
        let me = id(A, 1).with(pol);
        let cfg = Cfg { notify_down: nd, ..Cfg::default() };
        let mut s = CoreSpec::new(&format!("c09-{pol:?}-nd{}", nd as u8), me, cfg);
        s.words = words.to_vec();
        s.mons.c09 = true;
        let mut a = base_alpha();
        // senders that are older / newer generations of known peers and of
        // the instance's own address
        a.srcs = vec![
            (id(B, 1), 0, true),
            // a superseded sender whose datagrams carry update sections
            (id(B, 0), 0, true),
            (id(B, 0), 1, false),
            (id(B, 2), 0, false),
            (id(C, 0), 0, true),
            (id(A, 0), 0, false),
            (id(A, 2), 0, false),
        ];
        a.own_addr_srcs = true;
        a.payloads.push(vec![mm(id(B, 2), 0, State::Alive)]);
        a.payloads.push(vec![mm(id(B, 1), 0, State::Down)]);
        a.items = vec![vec![1, 1, 7]];
        a.stale_dst_gens = vec![-1];
        s.alpha = a;
        s.seed_hists = formed_seeds(&s, &["two-peers", "peer-down", "renamed", "suspected"]);
        // B known at generation 1, then B.0 (superseded) talks
        let mut sb = SeedBuilder::new(&s);
        sb.ev(Ev::Apply(vec![al(id(B, 1)), al(id(C, 0))], true));
        s.seed_hists.push(sb.done());
        // B.1 suspected (its timeout outstanding), then declared Down and
        // forgotten: an older identity of that address may re-register while
        // the timeout for the newer one is still pending
        let mut sb = SeedBuilder::new(&s);
        sb.ev(Ev::Apply(vec![al(id(B, 1)), al(id(C, 0))], true));
        for _ in 0..3 {
            if sb.view().members.iter().any(|m| m.state() == State::Suspect && m.id().addr == B) {
                break;
            }
            sb.fire(|t| matches!(t, TimerKey::ProbeRandomMember(_)));
            sb.fire(|t| matches!(t, TimerKey::SendIndirectProbe { .. }));
        }
        sb.fire(|t| matches!(t, TimerKey::ProbeRandomMember(_)));
        sb.ev(Ev::Apply(vec![mm(id(B, 1), 0, State::Down)], true));
        sb.fire(|t| matches!(t, TimerKey::RemoveDown(i) if i.addr == B));
        s.seed_hists.push(sb.done());
        let l = if th { lim(5, 4, 8_000_000, 900.0) } else { lim(3, 3, 2_000_000, 120.0) };
        out.push(Variant { spec: s, lim: l });
    }
    out
}

pub fn c09(tier: &str) -> Report {
    let mut rep = Report::new("C09", tier, "model_checking");
    let words = calibrated(&mut rep, 4, 3);
    run_variants("C09", tier, c09_variants(tier, &words), &mut rep);
    rep
}

// ------------------------------------------------------------------ C10 --

pub fn c10_variants(tier: &str, words: &[u32]) -> Vec<Variant> {
    let th = is_thorough(tier);
    let mut out = Vec::new();
    for pol in [Renew::None, Renew::Next, Renew::Same, Renew::Losing] {
        let me = id(A, 1).with(pol);
        let cfg = Cfg { notify_down: true, ..Cfg::default() };
        let mut s = CoreSpec::new(&format!("c10-{pol:?}"), me, cfg);
        s.words = words.to_vec();
        s.mons.c10 = true;
        let mut a = base_alpha();
        a.srcs = vec![(id(B, 0), 0, true), (id(B, 0), 5, false), (id(C, 0), 1, false)];
        a.kinds = vec![Kind::Gossip, Kind::Ping, Kind::Announce, Kind::TurnUndead, Kind::PingReq(id(C, 0))];
        a.payloads = vec![
            vec![],
            vec![mm(id(C, 0), 5, State::Suspect)],
            vec![mm(id(B, 0), 1, State::Down)],
            vec![mm(id(A, 0), 0, State::Suspect)],
            vec![mm(id(A, 2), 3, State::Suspect)],
            // a renewed identity of an address already known at a higher
            // incarnation: the new record starts from what was told about it
            vec![mm(id(C, 1), 0, State::Alive)],
            // ONE batch that first tells the instance its identity is Down and
            // then goes on about that same (by then abandoned) identity
            vec![mm(id(A, 1), 0, State::Down), mm(id(A, 1), 3, State::Suspect)],
            vec![mm(id(A, 1), 0, State::Down), mm(id(A, 1), 0, State::Down)],
        ];
        // Down at a lower incarnation than the current one is still Down
        a.self_rel = vec![(-1, State::Suspect), (0, State::Suspect), (1, State::Suspect), (0, State::Alive), (0, State::Down), (-1, State::Down)];
        a.self_abs = vec![(u16::MAX - 1, State::Suspect), (u16::MAX, State::Suspect), (u16::MAX, State::Alive)];
        a.applies = vec![(vec![al(id(C, 0))], true), (vec![mm(id(A, 1), 0, State::Down), mm(id(A, 1), 0, State::Suspect)], true)];
        a.api = vec![Ev::Leave, Ev::Reuse, Ev::Gossip];
        a.change_gens = vec![1];
        s.alpha = a;
        s.seed_hists = formed_seeds(&s, &["two-peers", "mid-probe", "defunct"]);
        let l = if th { lim(5, 5, 8_000_000, 900.0) } else { lim(3, 3, 2_000_000, 120.0) };
        out.push(Variant { spec: s, lim: l });
    }
    out
}

pub fn c10(tier: &str) -> Report {
    let mut rep = Report::new("C10", tier, "model_checking");
    let words = calibrated(&mut rep, 4, 3);
    run_variants("C10", tier, c10_variants(tier, &words), &mut rep);
    rep.assume("'told' is taken over every input ever given, accepted or not (more lenient than the property, never stricter)");
    rep
}

// ------------------------------------------------------------------ C11 --

pub fn c11_variants(tier: &str, words: &[u32]) -> Vec<Variant> {
    let th = is_thorough(tier);
    let mut out = Vec::new();
    for nd in [false, true] {
        let me = id(A, 1).with(Renew::None);
        let cfg = Cfg { notify_down: nd, remove_down: 1000, ..Cfg::default() };
        let mut s = CoreSpec::new(&format!("c11-nd{}", nd as u8), me, cfg);
        s.words = words.to_vec();
        s.mons.c11 = true;
        s.alpha = Alpha {
            srcs: vec![(id(B, 0), 0, false), (id(B, 0), 1, false), (id(B, 1), 0, false), (id(C, 0), 0, true)],
            kinds: vec![Kind::Gossip, Kind::Ack(0)],
            payload_kinds: vec![Kind::Gossip],
            payloads: vec![
                vec![],
                vec![mm(id(B, 0), 1, State::Alive)],
                vec![mm(id(B, 0), 1, State::Suspect)],
                vec![mm(id(B, 0), 0, State::Down)],
                vec![mm(id(B, 1), 0, State::Alive)],
                vec![mm(id(B, 0), 0, State::Alive)],
                vec![mm(id(C, 0), 0, State::Down)],
                // the newer generation goes Down too: two forget-timers for
                // one address are then outstanding
                vec![mm(id(B, 1), 0, State::Down)],
                // a much newer Alive about a (possibly Down) member
                vec![mm(id(B, 0), 5, State::Alive)],
            ],
            // forget-timers carry no token: they are honoured in every
            // connection state, also while the instance itself is defunct
            api: vec![Ev::Leave, Ev::Reuse],
            change_gens: vec![1],
            redeliver_suspect_timers: true,
            ..Alpha::default()
        };
        s.seed_hists = formed_seeds(&s, &["suspected", "suspected-single", "two-peers"]);
        // suspected, then declared Down elsewhere (forget-timer outstanding)
        let mut sb = SeedBuilder::new(&s);
        sb.ev(Ev::Apply(vec![al(id(B, 1)), al(id(C, 0))], true));
        for _ in 0..3 {
            // probe rounds until B.1 is the suspected one
            if sb.view().members.iter().any(|m| m.state() == State::Suspect) {
                break;
            }
            sb.fire(|t| matches!(t, TimerKey::ProbeRandomMember(_)));
            sb.fire(|t| matches!(t, TimerKey::SendIndirectProbe { .. }));
        }
        sb.fire(|t| matches!(t, TimerKey::ProbeRandomMember(_)));
        s.seed_hists.push(sb.done());
        let l = if th { lim(7, 6, 10_000_000, 1200.0) } else { lim(4, 4, 2_500_000, 120.0) };
        out.push(Variant { spec: s, lim: l });
    }
    out
}

pub fn c11(tier: &str) -> Report {
    use std::sync::atomic::Ordering::Relaxed;
    let mut rep = Report::new("C11", tier, "model_checking");
    let words = calibrated(&mut rep, 4, 3);
    run_variants("C11", tier, c11_variants(tier, &words), &mut rep);
    let rows: Vec<u64> = crate::mon_timers::C11_ROWS.iter().map(|a| a.load(Relaxed)).collect();
    rep.set(
        "timeout_firings_by_case",
        json!({"effective": rows[0], "cancelled_by_refutation_or_rename": rows[1], "stale_epoch_or_duplicate": rows[2], "already_down": rows[3]}),
    );
    if rep.violations.is_empty() && rep.exhaustive && rows[..3].iter().any(|r| *r == 0) {
        rep.machinery(format!("vacuous: a case-table row was never exercised: {rows:?}"));
    }
    rep
}

// ------------------------------------------------------------------ C13 --

pub fn c13_variants(tier: &str, words: &[u32]) -> Vec<Variant> {
    let th = is_thorough(tier);
    let mut out = Vec::new();
    for mask in 0..8u8 {
        for deadline in [false, true] {
            if !th && !([7u8, 0].contains(&mask) || (mask == 5 && !deadline)) {
                continue;
            }
            let me = id(A, 1).with(Renew::Next);
            let cfg = Cfg {
                notify_down: true,
                announce: (mask & 1 != 0).then_some((500, 1)),
                announce_down: (mask & 2 != 0).then_some((700, 1)),
                gossip: (mask & 4 != 0).then_some((200, 1)),
                ..Cfg::default()
            };
            let mut s = CoreSpec::new(&format!("c13-tasks{mask}-{}", if deadline { "deadline" } else { "anyorder" }), me, cfg.clone());
            s.words = words.to_vec();
            s.mons.c13 = true;
            if deadline {
                s.policy = TimerPolicy::DeadlineOrder;
                s.sleep_menu = vec![45, 150];
            }
            // set_config: disable each periodic task / change its period
            let mut api = vec![Ev::Leave, Ev::Reuse];
            if mask & 4 != 0 {
                api.push(Ev::SetConfig(Box::new(Cfg { gossip: None, ..cfg.clone() })));
                api.push(Ev::SetConfig(Box::new(Cfg { gossip: Some((350, 1)), ..cfg.clone() })));
            }
            if mask & 1 != 0 {
                api.push(Ev::SetConfig(Box::new(Cfg { announce: None, ..cfg.clone() })));
            }
            // enabling a task that is off (refused: nothing would ever arm
            // its timer), one at a time, whatever else is on
            if mask & 1 == 0 {
                api.push(Ev::SetConfig(Box::new(Cfg { announce: Some((500, 1)), ..cfg.clone() })));
            }
            if mask & 2 == 0 {
                api.push(Ev::SetConfig(Box::new(Cfg { announce_down: Some((700, 1)), ..cfg.clone() })));
            }
            if mask & 4 == 0 {
                api.push(Ev::SetConfig(Box::new(Cfg { gossip: Some((200, 1)), ..cfg.clone() })));
            }
            s.alpha = Alpha {
                srcs: vec![(id(B, 0), 0, true)],
                kinds: vec![Kind::Gossip, Kind::Ack(0), Kind::TurnUndead],
                payload_kinds: vec![Kind::Gossip],
                payloads: vec![vec![], vec![mm(id(C, 0), 0, State::Alive)], vec![mm(id(C, 0), 0, State::Down)], vec![mm(id(B, 0), 0, State::Down)]],
                self_rel: vec![(0, State::Down)],
                applies: vec![(vec![mm(id(B, 0), 0, State::Down), mm(id(C, 0), 0, State::Down)], true)],
                api,
                change_gens: vec![1],
                ..Alpha::default()
            };
            s.seed_hists = formed_seeds(&s, &["one-peer", "two-peers", "mid-probe"]);
            let l = if th { lim(8, 7, 10_000_000, 900.0) } else { lim(5, 5, 2_000_000, 120.0) };
            out.push(Variant { spec: s, lim: l });
        }
    }
    // An identity that cannot renew: being told it is Down makes the instance
    // Defunct. The batches take the last active peer(s) down FIRST and name
    // the instance itself afterwards, within one call: the connection state is
    // only re-evaluated after the whole batch, so this is the one route into
    // Defunct with zero active members and the instance still "connected".
    for deadline in [false, true] {
        if !th && deadline {
            continue;
        }
        let me = id(A, 1).with(Renew::None);
        let cfg = Cfg { notify_down: true, gossip: Some((200, 1)), ..Cfg::default() };
        let mut s = CoreSpec::new(&format!("c13-norenew-{}", if deadline { "deadline" } else { "anyorder" }), me, cfg.clone());
        s.words = words.to_vec();
        s.mons.c13 = true;
        if deadline {
            s.policy = TimerPolicy::DeadlineOrder;
            s.sleep_menu = vec![45, 150];
        }
        let b_me = vec![mm(id(B, 0), 0, State::Down), mm(me, 0, State::Down)];
        let bc_me = vec![mm(id(B, 0), 0, State::Down), mm(id(C, 0), 0, State::Down), mm(me, 0, State::Down)];
        let me_b = vec![mm(me, 0, State::Down), mm(id(B, 0), 0, State::Down)];
        s.alpha = Alpha {
            srcs: vec![(id(B, 0), 0, true)],
            kinds: vec![Kind::Gossip, Kind::Ack(0), Kind::TurnUndead],
            payload_kinds: vec![Kind::Gossip],
            payloads: vec![vec![], vec![mm(id(C, 0), 0, State::Down)], b_me.clone(), bc_me.clone(), me_b.clone()],
            self_rel: vec![(0, State::Down)],
            applies: vec![(b_me, true), (bc_me, true), (me_b, false), (vec![al(id(B, 0))], true)],
            api: vec![Ev::Leave, Ev::Reuse],
            change_gens: vec![1],
            ..Alpha::default()
        };
        s.seed_hists = formed_seeds(&s, &["one-peer", "two-peers", "mid-probe", "aged-254", "aged-255"]);
        let l = if th { lim(7, 6, 8_000_000, 900.0) } else { lim(4, 4, 1_500_000, 120.0) };
        out.push(Variant { spec: s, lim: l });
    }
    out
}

pub fn c13(tier: &str) -> Report {
    let mut rep = Report::new("C13", tier, "model_checking");
    let words = calibrated(&mut rep, 4, 3);
    run_variants("C13", tier, c13_variants(tier, &words), &mut rep);
    rep.assume("fewer than 256 epoch changes between issue and delivery (the width of the token): guaranteed by the depth bound");
    rep
}

/// Look a variant up again for `verif replay`.
pub fn find_variant(prop: &str, tier: &str, label: &str) -> Option<CoreSpec> {
    let words = rng::menu(4, 3);
    let vs = match prop {
        "C19" => c19_variants(tier, &words),
        "C08" => c08_variants(tier, &words),
        "C09" => c09_variants(tier, &words),
        "C10" => c10_variants(tier, &words),
        "C11" => c11_variants(tier, &words),
        "C13" => c13_variants(tier, &words),
        _ => return None,
    };
    vs.into_iter().map(|v| v.spec).find(|s| s.label == label)
}
