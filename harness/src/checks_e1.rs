//! The E1-based checks: alphabets, seeds and bounds per property.
use crate::core::*;
use crate::doubles::*;
use crate::e1::*;
use crate::report::Report;
use crate::rng;
use crate::spec_core::*;
use foca::{Member, State};
use serde_json::json;

pub const A: u8 = 0;
pub const B: u8 = 1;
pub const C: u8 = 2;
pub const D: u8 = 3;

pub fn al(i: Id) -> Member<Id> {
    Member::new(i, 0, State::Alive)
}
pub fn mm(i: Id, inc: u16, st: State) -> Member<Id> {
    Member::new(i, inc, st)
}

pub struct Variant {
    pub spec: CoreSpec,
    pub lim: Limits,
}

fn lim(depth: usize, seed_depth: usize, states: u64, wall: f64) -> Limits {
    Limits { max_depth: depth, seed_depth, max_states: states, max_wall_s: wall }
}

fn is_thorough(tier: &str) -> bool {
    tier == "thorough"
}

/// Run all variants of a property, fold the statistics into one report.
pub fn run_variants(prop: &str, tier: &str, variants: Vec<Variant>, rep: &mut Report) {
    let mut all_exhaustive = true;
    let mut per_variant = Vec::new();
    for v in variants {
        let g = v.spec.words.len();
        let (stats, found) = explore(&v.spec, &v.lim);
        rep.states += stats.states;
        rep.transitions += stats.transitions;
        if stats.capped.is_some() {
            all_exhaustive = false;
        }
        per_variant.push(json!({
            "variant": v.spec.label,
            "states": stats.states,
            "transitions": stats.transitions,
            "depth_completed": stats.depth_completed,
            "depth_bound": v.lim.max_depth,
            "seed_depth": v.lim.seed_depth,
            "seeds": v.spec.seed_hists.len(),
            "per_depth(new_states,transitions)": stats.per_depth.iter().map(|(d, s, t)| json!([d, s, t])).collect::<Vec<_>>(),
            "cap_hit": stats.capped,
            "state_space_exhausted_below_bound": stats.exhausted,
            "rng_menu_words": g,
            "max_rng_draws_in_one_call": stats.max_draws_in_step,
            "wall_s": stats.wall_s,
        }));
        for s in stats.samples.iter().take(2) {
            rep.sample(json!({"variant": v.spec.label, "history": s}));
        }
        for f in found.iter().take(40) {
            let codec = v.spec.codec;
            let shown: Vec<String> = f.history.iter().map(|s| format!("{}  rng={:?}", show_ev(&codec, &s.ev), s.script)).collect();
            rep.violate(
                &f.viol.signature,
                format!("{} [variant {}; after {} events: {}]", f.viol.what, v.spec.label, f.history.len(), shown.join(" ; ")),
                json!({"engine": "e1", "property": prop, "tier": tier, "variant": v.spec.label, "history": f.history, "shown": shown}),
            );
        }
    }
    rep.set("variants", json!(per_variant));
    rep.exhaustive = all_exhaustive;
    rep.rule = "breadth-first over all event sequences of the per-property alphabet up to the depth bound, every RNG answer a branch, exact deduplication on (internal snapshot, handler, monitor, outstanding timers); a state is non-trivial/distinct iff its 128-bit key is new".into();
    rep.assume("identity domain: 3-4 addresses x 2-3 generations; incarnations from a small set plus the u16 boundaries");
    rep.assume("128-bit state hashing without collision detection");
    rep.assume("test doubles (codec, runtime, handler, identity) are total and trusted");
}

pub fn calibrated(rep: &mut Report, g: usize, l: usize) -> Vec<u32> {
    let words = rng::menu(g, l);
    match rng::calibrate(&words, g, l) {
        Ok(s) => rep.set("rng_calibration", json!(s)),
        Err(e) => rep.machinery(format!("RNG menu calibration failed: {e}")),
    }
    words
}

// ------------------------------------------------------------------ C19 --

pub fn c19_variants(tier: &str, words: &[u32]) -> Vec<Variant> {
    let th = is_thorough(tier);
    let mut out = Vec::new();
    // every combination of the three periodic tasks
    for mask in 0..8u8 {
        if !th && ![7u8, 2, 0].contains(&mask) {
            continue;
        }
        let me = id(A, 1).with(Renew::Next);
        let cfg = Cfg {
            notify_down: true,
            announce: (mask & 1 != 0).then_some((500, 1)),
            announce_down: (mask & 2 != 0).then_some((500, 2)),
            gossip: (mask & 4 != 0).then_some((200, 1)),
            ..Cfg::default()
        };
        let mut s = CoreSpec::new(&format!("c19-tasks{mask}"), me, cfg);
        s.words = words.to_vec();
        s.mons.c19 = true;
        s.alpha = Alpha {
            srcs: vec![id(B, 0), id(C, 0)],
            src_incs: vec![0],
            kinds: vec![Kind::Gossip, Kind::Ping, Kind::Announce],
            payloads: vec![
                vec![],
                vec![mm(id(A, 0), 0, State::Alive)],
                vec![mm(id(A, 0), 0, State::Down)],
                vec![mm(id(A, 2), 0, State::Alive)],
                vec![mm(id(A, 2), 0, State::Down)],
                vec![mm(id(A, 3), 0, State::Alive)],
                vec![mm(id(C, 0), 0, State::Down)],
            ],
            self_rel: vec![(0, State::Down), (0, State::Suspect)],
            api: vec![Ev::Gossip, Ev::Leave, Ev::Broadcast],
            change_gens: vec![1],
            ..Alpha::default()
        };
        // Ping/Announce only with the empty payload: they differ from Gossip
        // in the reply only
        let mut sb = SeedBuilder::new(&s);
        sb.ev(Ev::Apply(vec![al(id(B, 0)), al(id(C, 0))], true));
        s.seed_hists.push(sb.done());
        let mut sb = SeedBuilder::new(&s);
        sb.ev(Ev::Apply(vec![al(id(B, 0)), mm(id(A, 0), 0, State::Alive)], true));
        s.seed_hists.push(sb.done());
        let l = if th { lim(6, 5, 6_000_000, 600.0) } else { lim(4, 3, 1_500_000, 40.0) };
        out.push(Variant { spec: s, lim: l });
    }
    out
}

pub fn c19(tier: &str) -> Report {
    let mut rep = Report::new("C19", tier, "model_checking");
    let words = calibrated(&mut rep, 4, 3);
    run_variants("C19", tier, c19_variants(tier, &words), &mut rep);
    rep
}

/// Look a variant up again for `verif replay`.
pub fn find_variant(prop: &str, tier: &str, label: &str) -> Option<CoreSpec> {
    let words = rng::menu(4, 3);
    let vs = match prop {
        "C19" => c19_variants(tier, &words),
        _ => return None,
    };
    vs.into_iter().map(|v| v.spec).find(|s| s.label == label)
}
