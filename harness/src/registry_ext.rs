//! Checks and replay handlers of the non-E1 engines.
use crate::checks_e1::Variant;
use crate::report::Report;

pub fn run(_prop: &str, _tier: &str) -> Option<Report> {
    None
}

pub fn e1_variants(_prop: &str, _tier: &str) -> Option<Vec<Variant>> {
    None
}

pub fn replay(doc: &serde_json::Value) -> i32 {
    eprintln!("no replay handler for engine {:?}", doc["replay"]["engine"]);
    2
}
