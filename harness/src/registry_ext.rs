//! Replay for non-E1 engines (filled in as engines are added).
pub fn replay(_doc: &serde_json::Value) -> i32 {
    eprintln!("no replay handler for this engine yet");
    2
}
