//! Checks and replay handlers of the non-E1 engines.
use crate::checks_e1::Variant;
use crate::report::Report;

pub fn run(prop: &str, tier: &str) -> Option<Report> {
    Some(match prop {
        "C07" => crate::c07::c07(tier),
        "C06" => crate::c06::c06(tier),
        "C02" => crate::e2_checks::c02(tier),
        "C03" => crate::e2_checks::c03(tier),
        "C04" => crate::e2_checks::c04(tier),
        "C05" => crate::e2_checks2::c05(tier),
        "C18" => crate::e2_checks2::c18(tier),
        "C01" => crate::c01::c01(tier),
        "C14" => crate::c14::c14(tier),
        "C20" => crate::c20::c20(tier),
        _ => return None,
    })
}

pub fn e1_variants(_prop: &str, _tier: &str) -> Option<Vec<Variant>> {
    None
}

pub fn replay(doc: &serde_json::Value) -> i32 {
    println!("this violation was found by a bounded-exhaustive sweep; its description is the replay recipe:");
    println!("{}", doc["what"]);
    println!("re-run the owning check to reproduce: ./check {} quick", doc["property"].as_str().unwrap_or("?"));
    1
}
