//! C05, second shape: the SAME partition happens twice. The first episode
//! is healed and converges (everyone renewed); the second one starts later,
//! lasts until every forget-timer armed during the first episode has fired
//! (they are never cancelled and now name superseded identities) and is
//! healed while the Down records of the second episode are still younger
//! than `remove_down_after`. Starting the partition from a state that already
//! went through one Down/Rejoin cycle reaches code a single episode cannot:
//! stale forget-timers, records replaced by renewed identities, non-zero
//! timer tokens.
use crate::core::*;
use crate::doubles::*;
use crate::e2::*;
use crate::e2_checks::{form_cluster, PERIOD, SUSPECT};
use crate::e2_checks2::{C05Cell, ANNOUNCE_DOWN};
use crate::rng;
use foca::{Identity, OwnedNotification as N, State};
use std::collections::BTreeMap;

/// `remove_down_after` of this shape: longer than one whole episode (mutual
/// Down + hold + 8 announce-to-down periods + the next mutual Down)
pub const REMOVE_DOWN: u64 = 9_000;
const K_PERIODS: u64 = 8;

fn cfg() -> Cfg {
    Cfg { probe_period: PERIOD, probe_rtt: 40, suspect_to_down: SUSPECT, remove_down: REMOVE_DOWN, notify_down: true, announce_down: Some((ANNOUNCE_DOWN, 2)), fanout: 3, max_tx: 5, ..Cfg::default() }
}

pub fn run(cell: &C05Cell, devs: &BTreeMap<usize, usize>) -> RunResult {
    let n = cell.n;
    let mut res = RunResult::default();
    let mut sim = Sim::new(n, SimOpts { lat_menu: vec![1, 9], words: rng::menu(n + 1, n.min(5)), record_sends: false, record_received: false });
    let cfg = cfg();
    if let Err(e) = form_cluster(&mut sim, n, &cfg, true, cell.phase) {
        res.violations.push(("machinery:formation".into(), e));
        return res;
    }
    let mut k = 0;
    while k < cell.start_event {
        if sim.step(u64::MAX).is_none() {
            break;
        }
        k += 1;
    }
    let all: Vec<u8> = (0..n as u8).collect();
    let side = |a: u8| (a as usize) < cell.side_a;
    let mut t_down_first = 0u64;
    for episode in 0..2u32 {
        let old_ids: Vec<Id> = all.iter().map(|a| *sim.nodes[*a as usize].as_ref().unwrap().identity()).collect();
        for a in 0..n {
            for b in 0..n {
                sim.blocked[a][b] = side(a as u8) != side(b as u8);
            }
        }
        let t_part = sim.now;
        let limit = sim.now + (3 * n as u64 + 6) * PERIOD + SUSPECT;
        let mut mutual = false;
        loop {
            if sim.step(limit).is_none() {
                break;
            }
            mutual = all.iter().all(|a| {
                let v = sim.view(*a).unwrap();
                all.iter().filter(|b| side(**b) != side(*a)).all(|b| v.members.iter().any(|m| m.id().addr == *b && m.state() == State::Down))
            });
            if mutual {
                break;
            }
        }
        if !mutual {
            res.violations.push(("machinery:no-mutual-down".into(), format!("episode {episode}: the partition did not make both sides declare each other Down [{}]", cell.label())));
            return res;
        }
        let until = if episode == 0 {
            t_down_first = sim.now;
            sim.now + cell.extra
        } else {
            // every forget-timer of the first episode has fired by then
            t_down_first + REMOVE_DOWN + 20 + cell.extra
        };
        if episode == 1 && until.saturating_sub(t_part) >= REMOVE_DOWN {
            res.violations.push(("machinery:second-partition-too-long".into(), format!("second partition would outlive remove_down_after [{}]", cell.label())));
            return res;
        }
        while sim.step(until).is_some() {}
        for a in 0..n {
            for b in 0..n {
                sim.blocked[a][b] = false;
            }
        }
        let t_heal = sim.now.max(until);
        for l in sim.logs.iter_mut() {
            l.notes.clear();
        }
        if episode == 1 {
            sim.chooser.deviations = devs.clone();
            sim.chooser.recording = true;
        }
        let horizon = t_heal + K_PERIODS * ANNOUNCE_DOWN;
        let record_until = t_heal + ANNOUNCE_DOWN + 100;
        let mut converged_at: Option<u64> = None;
        while let Some((t, _)) = sim.step(horizon) {
            if t > record_until {
                sim.chooser.recording = false;
            }
            if converged_at.is_none() && sim.fully_meshed(&all) {
                converged_at = Some(t);
            }
            if sim.panicked.is_some() {
                break;
            }
        }
        if let Some(p) = &sim.panicked {
            res.violations.push(("c05:panic".into(), p.clone()));
            return res;
        }
        for a in &all {
            let mut cur = old_ids[*a as usize];
            let mut rejoined = false;
            let mut active_after = false;
            for (t, x) in &sim.logs[*a as usize].notes {
                match x {
                    N::Defunct => res.violations.push(("c05:defunct".into(), format!("t={t} node {a} notified Defunct although its identity is renewable [episode {episode}, {}]", cell.label()))),
                    N::Rejoin(new) => {
                        if *new == cur || !new.win_addr_conflict(&cur) {
                            res.violations.push(("c05:rejoin-not-winning".into(), format!("t={t} node {a} rejoined as {} which does not win against {} [episode {episode}, {}]", new.show(), cur.show(), cell.label())));
                        }
                        cur = *new;
                        rejoined = true;
                        active_after = false;
                    }
                    N::Active if rejoined => active_after = true,
                    _ => {}
                }
            }
            if rejoined && !active_after && converged_at.is_some() {
                res.violations.push(("c05:no-active-after-rejoin".into(), format!("node {a} rejoined as {} but never notified Active afterwards [episode {episode}, {}]", cur.show(), cell.label())));
            }
        }
        match converged_at {
            Some(t) => {
                let m = res.metrics.entry("convergence_announce_periods_x100".into()).or_insert(0);
                *m = (*m).max((t - t_heal) * 100 / ANNOUNCE_DOWN);
            }
            None => {
                let views: Vec<String> = all.iter().filter_map(|a| sim.view(*a).map(|v| v.show())).collect();
                let inactive = all.iter().all(|a| {
                    let notes = &sim.logs[*a as usize].notes;
                    let last = notes.iter().rev().find(|(_, x)| matches!(x, N::Active | N::Idle | N::Rejoin(_) | N::Defunct));
                    matches!(last, Some((_, N::Rejoin(_))) | Some((_, N::Idle)))
                });
                if inactive {
                    // the aligned-timers finding (F6) of the single-episode shape
                    res.violations.push((
                        "all-instances-disconnected-no-effective-timer".into(),
                        format!("after the heal of episode {episode} every instance renewed its identity and none became Active again: {} [{}]", views.join(" | "), cell.label()),
                    ));
                } else {
                    res.violations.push((
                        "c05:not-converged-after-second-partition".into(),
                        format!("episode {episode}: {} announce-to-down periods after the heal not every live instance lists every other: {} [{}]", K_PERIODS, views.join(" | "), cell.label()),
                    ));
                }
                break;
            }
        }
    }
    res.events = sim.events_processed;
    res.points = sim.chooser.points;
    res
}
