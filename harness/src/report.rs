//! Evidence files, replay artefacts, known findings and the exit-code
//! contract (0 = held, 1 + VIOLATION line = violation, 2 = machinery error).
use serde_json::{json, Map, Value};
use std::collections::BTreeSet;
use std::path::{Path, PathBuf};
use std::time::Instant;

#[derive(Clone, Debug)]
pub struct Violation {
    pub signature: String,
    pub what: String,
    /// machine-readable replay description (engine specific)
    pub replay: Value,
}

pub struct Report {
    pub property: String,
    pub tier: String,
    pub seed: u64,
    pub level: &'static str,
    pub t0: Instant,
    pub states: u64,
    pub transitions: u64,
    pub evaluations: u64,
    pub distinct_nontrivial: u64,
    pub rule: String,
    pub exhaustive: bool,
    pub samples: Vec<Value>,
    pub extra: Map<String, Value>,
    pub assumptions: Vec<String>,
    pub violations: Vec<Violation>,
    pub machinery_errors: Vec<String>,
}

pub fn root() -> PathBuf {
    std::env::var("VERIF_ROOT").map(PathBuf::from).unwrap_or_else(|_| std::env::current_dir().unwrap())
}

impl Report {
    pub fn new(property: &str, tier: &str, level: &'static str) -> Self {
        let seed = std::env::var("VERIF_SEED").ok().and_then(|s| s.parse().ok()).unwrap_or(0);
        Report {
            property: property.to_string(),
            tier: tier.to_string(),
            seed,
            level,
            t0: Instant::now(),
            states: 0,
            transitions: 0,
            evaluations: 0,
            distinct_nontrivial: 0,
            rule: String::new(),
            exhaustive: false,
            samples: vec![],
            extra: Map::new(),
            assumptions: vec![],
            violations: vec![],
            machinery_errors: vec![],
        }
    }
    pub fn set(&mut self, k: &str, v: Value) {
        self.extra.insert(k.to_string(), v);
    }
    pub fn assume(&mut self, s: &str) {
        self.assumptions.push(s.to_string());
    }
    pub fn sample(&mut self, v: Value) {
        if self.samples.len() < 8 {
            self.samples.push(v);
        }
    }
    pub fn violate(&mut self, signature: &str, what: String, replay: Value) {
        self.violations.push(Violation { signature: signature.to_string(), what, replay });
    }
    pub fn machinery(&mut self, what: String) {
        self.machinery_errors.push(what);
    }

    /// Write evidence, classify violations against known findings, print the
    /// contract lines and return the process exit code.
    pub fn finish(mut self) -> i32 {
        if std::env::var("VERIF_PLAIN_PASS").is_ok() {
            // secondary pass of C06 in the plain profile: the parent run owns
            // evidence and replay files
            return if self.violations.is_empty() { 0 } else { 1 };
        }
        let root = root();
        let wall = self.t0.elapsed().as_secs_f64();
        let known = load_known(&root.join("known_findings.json"));
        let mut known_hit: BTreeSet<String> = BTreeSet::new();
        let mut fresh: Vec<&Violation> = Vec::new();
        let mut fresh_sigs: BTreeSet<String> = BTreeSet::new();
        for v in &self.violations {
            if let Some(k) = known.iter().find(|k| k.property == self.property && k.status == "known" && k.signature == v.signature) {
                if known_hit.insert(k.signature.clone()) {
                    println!("KNOWN-FINDING: property={} {} [{}]", self.property, k.what, k.signature);
                }
            } else if fresh_sigs.insert(v.signature.clone()) {
                fresh.push(v);
            }
        }
        let mut exit = 0;
        let mut replay_paths = Vec::new();
        for v in fresh.iter().take(5) {
            let h = crate::core::hash128(&(&v.signature, &v.what)) as u32;
            let dir = root.join("replays");
            let _ = std::fs::create_dir_all(&dir);
            let path = dir.join(format!("{}-{:08x}.json", self.property, h));
            let doc = json!({
                "property": self.property,
                "signature": v.signature,
                "what": v.what,
                "replay": v.replay,
            });
            let _ = std::fs::write(&path, serde_json::to_string_pretty(&doc).unwrap());
            println!("VIOLATION property={} replay={}", self.property, path.display());
            println!("  [{}] {}", v.signature, v.what);
            replay_paths.push(path.display().to_string());
            exit = 1;
        }
        if !self.machinery_errors.is_empty() {
            for e in &self.machinery_errors {
                eprintln!("MACHINERY-ERROR property={} {}", self.property, e);
            }
            if exit == 0 {
                exit = 2;
            }
        }
        if self.distinct_nontrivial == 0 {
            self.distinct_nontrivial = self.states;
        }
        if self.evaluations == 0 {
            self.evaluations = self.transitions;
        }
        let mut cov = Map::new();
        cov.insert("states".into(), json!(self.states.max(1)));
        cov.insert("transitions".into(), json!(self.transitions.max(1)));
        cov.insert("traces_validated_against_impl".into(), json!(self.transitions));
        cov.insert("evaluations".into(), json!(self.evaluations.max(1)));
        cov.insert("distinct_nontrivial".into(), json!(self.distinct_nontrivial));
        cov.insert("rule".into(), json!(self.rule));
        cov.insert("exhaustive".into(), json!(self.exhaustive));
        if self.samples.is_empty() {
            self.samples.push(json!("(no sample recorded)"));
        }
        cov.insert("samples".into(), Value::Array(self.samples.clone()));
        cov.insert(
            "explanation".into(),
            json!("the model is the implementation: every transition is one real call into /repo's working tree"),
        );
        for (k, v) in &self.extra {
            cov.insert(k.clone(), v.clone());
        }
        cov.insert("known_findings_matched".into(), json!(known_hit.iter().collect::<Vec<_>>()));
        cov.insert("new_violation_replays".into(), json!(replay_paths));
        cov.insert("machinery_errors".into(), json!(self.machinery_errors));
        if crate::core::WIDE_DRAWS_SEEN.load(std::sync::atomic::Ordering::Relaxed) {
            cov.insert("rng_note".into(), json!("Foca drew randomness through next_u64/fill_bytes: the word menu is calibrated for 32-bit draws only, so RNG outcomes were explored but not provably all of them"));
        }
        let doc = json!({
            "property_id": self.property,
            "tier": self.tier,
            "seed": self.seed,
            "level": self.level,
            "coverage": Value::Object(cov),
            "assumptions": self.assumptions,
            "wall_s": wall,
            "violations": fresh_sigs.len(),
        });
        let dir = root.join("evidence");
        let _ = std::fs::create_dir_all(&dir);
        let path = dir.join(format!("{}.json", self.property));
        if let Err(e) = std::fs::write(&path, serde_json::to_string_pretty(&doc).unwrap()) {
            eprintln!("MACHINERY-ERROR cannot write {}: {e}", path.display());
            if exit == 0 {
                exit = 2;
            }
        }
        println!(
            "{} tier={} states={} transitions={} evaluations={} wall={:.1}s exit={}",
            self.property, self.tier, self.states, self.transitions, self.evaluations, wall, exit
        );
        exit
    }
}

#[derive(Clone, Debug, serde::Deserialize)]
pub struct Known {
    pub property: String,
    pub signature: String,
    pub status: String,
    pub what: String,
    #[serde(default)]
    pub commit: Option<String>,
}

pub fn load_known(path: &Path) -> Vec<Known> {
    match std::fs::read_to_string(path) {
        Ok(s) => serde_json::from_str::<Vec<Known>>(&s).unwrap_or_else(|e| {
            eprintln!("MACHINERY-ERROR known_findings.json unreadable: {e}");
            vec![]
        }),
        Err(_) => vec![],
    }
}
