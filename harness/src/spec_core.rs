//! The generic E1 specification: a configurable alphabet over a tiny
//! identity / incarnation domain plus a selectable set of monitors. Each
//! property check instantiates it with the alphabet that reaches the states
//! its oracle cares about ("small, sharp driver").
use crate::core::*;
use crate::doubles::*;
use crate::e1::*;
use crate::mon::*;
use crate::refmodel::*;
use foca::{Member, Message, State};

#[derive(Clone, Copy, Debug, PartialEq, Eq)]
pub enum Kind {
    Gossip,
    Ping,
    Announce,
    TurnUndead,
    Feed,
    /// Ack carrying the probe number cur+delta (cur from the hook snapshot)
    Ack(i8),
    /// ForwardedAck (origin = current probe target) with number cur+delta
    FwdAck(i8),
    /// PingReq naming `target`
    PingReq(Id),
    IndirectPing(Id),
    IndirectAck(Id),
    Broadcast,
}

#[derive(Clone, Debug, Default)]
pub struct Alpha {
    /// (sender identity, sender incarnation, carries the payload menu?)
    pub srcs: Vec<(Id, u16, bool)>,
    pub kinds: Vec<Kind>,
    /// kinds that get the non-empty payloads (empty = all piggybacking kinds)
    pub payload_kinds: Vec<Kind>,
    /// also offer datagrams whose sender bears the instance's own address
    pub own_addr_srcs: bool,
    /// offer already-delivered suspicion timeouts again (duplicates)
    pub redeliver_suspect_timers: bool,
    /// update lists carried by piggybacking datagrams (include `vec![]`)
    pub payloads: Vec<Vec<Member<Id>>>,
    /// single updates about the *current own identity* at incarnation
    /// own+delta (datagram payloads)
    pub self_rel: Vec<(i32, State)>,
    /// ... and at absolute incarnations
    pub self_abs: Vec<(u16, State)>,
    /// the same through apply_many
    pub self_via_apply: bool,
    pub applies: Vec<(Vec<Member<Id>>, bool)>,
    pub api: Vec<Ev>,
    /// change_identity to own address, generation current+delta
    pub change_gens: Vec<i8>,
    /// custom items carried by datagrams (first src / Gossip only)
    pub items: Vec<Vec<u8>>,
    /// datagrams carrying SEVERAL custom items (first src only)
    pub item_sets: Vec<Vec<Vec<u8>>>,
    /// datagrams addressed to these generations of the own address too
    /// (stale destinations)
    pub stale_dst_gens: Vec<i8>,
}

#[derive(Clone, Copy, Debug, Default)]
pub struct Mons {
    pub c07: bool,
    pub c08: bool,
    pub c08_twin: bool,
    pub c09: bool,
    pub c10: bool,
    pub c11: bool,
    pub c13: bool,
    pub c19: bool,
    pub c12: bool,
    pub c15: bool,
    pub c16: bool,
}

#[derive(Clone, Debug, PartialEq, Eq, Hash)]
pub struct CoreMon {
    pub conn: Conn,
    pub own: (Id, u16),
    pub c09: C09State,
    pub c10: C10State,
    pub c11: crate::mon_timers::C11State,
    pub c13: crate::mon_timers::C13State,
    pub c12: crate::mon_probe::C12State,
    pub c15: crate::mon_bcast::C15State,
    pub c16: crate::mon_bcast::C16State,
}

pub struct CoreSpec {
    pub label: String,
    pub me: Id,
    pub cfg: Cfg,
    pub handler: TableHandler,
    pub alpha: Alpha,
    pub mons: Mons,
    pub words: Vec<u32>,
    pub seed_hists: Vec<Vec<HistStep>>,
    pub policy: TimerPolicy,
    pub sleep_menu: Vec<i64>,
    /// stop expanding below Defunct states etc. (None = expand everything)
    pub codec: FixCodec,
}

impl CoreSpec {
    pub fn new(label: &str, me: Id, cfg: Cfg) -> Self {
        CoreSpec {
            label: label.to_string(),
            me,
            cfg,
            handler: TableHandler::new(InvMode::NewerVersion),
            alpha: Alpha::default(),
            mons: Mons::default(),
            words: crate::rng::menu(4, 3),
            seed_hists: vec![],
            policy: TimerPolicy::AnyOrder,
            sleep_menu: vec![],
            codec: FixCodec::default(),
        }
    }

    fn data(&self, src: Id, inc: u16, dst: Id, kind: Kind, payload: &[Member<Id>], items: &[Vec<u8>], snap: &foca::VerifSnapshot<Id>) -> Option<Ev> {
        let pn = snap.probe_number;
        let msg = match kind {
            Kind::Gossip => Message::Gossip,
            Kind::Ping => Message::Ping(7),
            Kind::Announce => Message::Announce,
            Kind::TurnUndead => Message::TurnUndead,
            Kind::Feed => Message::Feed,
            Kind::Broadcast => Message::Broadcast,
            Kind::Ack(d) => Message::Ack(pn.wrapping_add(d as u8)),
            Kind::FwdAck(d) => Message::ForwardedAck { origin: snap.probe_target.as_ref().map(|m| *m.id())?, probe_number: pn.wrapping_add(d as u8) },
            Kind::PingReq(t) => Message::PingReq { target: t, probe_number: 9 },
            Kind::IndirectPing(o) => Message::IndirectPing { origin: o, probe_number: 9 },
            Kind::IndirectAck(t) => Message::IndirectAck { target: t, probe_number: 9 },
        };
        let carries_updates = crate::grammar::piggybacks(&msg);
        let carries_items = crate::grammar::may_carry_items(&msg);
        if !carries_updates && !payload.is_empty() {
            return None;
        }
        if !carries_items && !items.is_empty() {
            return None;
        }
        let its: Vec<&[u8]> = items.iter().map(|v| &v[..]).collect();
        let ups = if carries_updates && (!payload.is_empty() || !its.is_empty()) { Some(payload) } else { None };
        Some(Ev::Data(dgram(&self.codec, src, inc, dst, msg, ups, &its)))
    }
}

impl Spec for CoreSpec {
    type Mon = CoreMon;
    fn name(&self) -> String {
        self.label.clone()
    }
    fn codec(&self) -> FixCodec {
        self.codec
    }
    fn fresh(&self) -> (F, CoreMon) {
        let f = new_foca(self.me, &self.cfg, self.codec, self.handler.clone());
        let mon = CoreMon {
            conn: Conn::Idle,
            own: (self.me, 0),
            c09: C09State::default(),
            c10: C10State::default(),
            c11: Default::default(),
            c13: Default::default(),
            c12: Default::default(),
            c15: Default::default(),
            c16: Default::default(),
        };
        (f, mon)
    }
    fn seeds(&self) -> Vec<Vec<HistStep>> {
        self.seed_hists.clone()
    }
    fn timer_policy(&self) -> TimerPolicy {
        self.policy
    }
    fn sleeps(&self) -> Vec<i64> {
        self.sleep_menu.clone()
    }
    fn rng_menu(&self) -> &[u32] {
        &self.words
    }

    fn menu(&self, node: &Node<CoreMon>, view: &View) -> Vec<Ev> {
        let a = &self.alpha;
        let me = view.id;
        let own_inc = node.mon.own.1;
        let snap = node.f.verif_snapshot();
        let mut evs: Vec<Ev> = Vec::new();
        // payload menu
        let mut payloads: Vec<Vec<Member<Id>>> = a.payloads.clone();
        let mut self_updates: Vec<Member<Id>> = Vec::new();
        for (d, st) in &a.self_rel {
            let inc = own_inc as i32 + d;
            if (0..=u16::MAX as i32).contains(&inc) {
                self_updates.push(Member::new(me, inc as u16, *st));
            }
        }
        for (inc, st) in &a.self_abs {
            self_updates.push(Member::new(me, *inc, *st));
        }
        self_updates.dedup();
        for u in &self_updates {
            payloads.push(vec![u.clone()]);
        }
        let mut dsts = vec![me];
        for d in &a.stale_dst_gens {
            let g = me.gen as i16 + *d as i16;
            if (0..=255).contains(&g) && g as u8 != me.gen {
                dsts.push(Id { gen: g as u8, ..me });
            }
        }
        let empty: Vec<Member<Id>> = vec![];
        for (si, (src, inc, with_payloads)) in a.srcs.iter().enumerate() {
            if src.addr == me.addr && !a.own_addr_srcs {
                continue;
            }
            for kind in &a.kinds {
                for (di, dst) in dsts.iter().enumerate() {
                    let gets_payloads = *with_payloads && di == 0 && (a.payload_kinds.is_empty() || a.payload_kinds.contains(kind));
                    if gets_payloads {
                        for p in &payloads {
                            if let Some(e) = self.data(*src, *inc, *dst, *kind, p, &[], &snap) {
                                evs.push(e);
                            }
                        }
                    } else if let Some(e) = self.data(*src, *inc, *dst, *kind, &empty, &[], &snap) {
                        evs.push(e);
                    }
                }
                if si == 0 {
                    for set in &a.item_sets {
                        if let Some(e) = self.data(*src, *inc, me, *kind, &[], set, &snap) {
                            evs.push(e);
                        }
                    }
                    for it in &a.items {
                        if let Some(e) = self.data(*src, *inc, me, *kind, &[], std::slice::from_ref(it), &snap) {
                            evs.push(e);
                        }
                    }
                }
            }
        }
        for (us, b) in &a.applies {
            evs.push(Ev::Apply(us.clone(), *b));
        }
        if a.self_via_apply {
            for u in &self_updates {
                evs.push(Ev::Apply(vec![u.clone()], true));
            }
        }
        evs.extend(a.api.iter().cloned());
        if a.redeliver_suspect_timers {
            // duplicates of suspicion timeouts that were already delivered
            for t in node.mon.c11.issued.keys() {
                if !node.timers.iter().any(|(_, k)| k == t) {
                    evs.push(Ev::Timer(*t));
                }
            }
        }
        for d in &a.change_gens {
            let g = me.gen as i16 + *d as i16;
            if (0..=255).contains(&g) {
                evs.push(Ev::ChangeId(Id { gen: g as u8, ..me }));
            }
        }
        evs.dedup();
        evs
    }

    fn step(&self, cx: &StepCtx<'_, CoreMon>, mon: &mut CoreMon) -> Result<(), Viol> {
        let max_packet_pre = self.current_max_packet(&cx.pre.f);
        let info = analyse_input(&self.codec, cx.pre_view, max_packet_pre, cx.ev);
        let conn_pre = mon.conn;
        let own_pre = mon.own;
        let own_post = observe_own(cx.post, &self.codec).unwrap_or((cx.post_view.id, own_pre.1));
        if self.mons.c07 {
            c07_step(cx, &self.codec, max_packet_pre, self.current_max_packet(cx.post))?;
        }
        if self.mons.c19 {
            c19_step(cx, &self.codec)?;
        }
        if self.mons.c08 {
            let c = c08_step(cx, &info, conn_pre, own_pre.1)?;
            debug_assert_eq!(c, conn_after(conn_pre, cx.ev, cx.out));
            if self.mons.c08_twin {
                c08_accumulating_twin(&cx.pre.f, cx.ev, cx.script, cx.out)?;
            }
        }
        if self.mons.c09 {
            c09_step(cx, &info, &mut mon.c09, self.cfg_of(&cx.pre.f).notify_down)?;
        }
        if self.mons.c10 {
            c10_step(cx, &info, &mut mon.c10, &self.codec, own_pre, own_post, conn_pre)?;
        }
        if self.mons.c11 {
            crate::mon_timers::c11_step(cx, &info, &mut mon.c11, &self.codec, &self.cfg_of(&cx.pre.f), conn_pre)?;
        }
        mon.conn = conn_after(conn_pre, cx.ev, cx.out);
        if self.mons.c12 {
            crate::mon_probe::c12_step(cx, &info, &mut mon.c12, &self.codec, &self.cfg_of(&cx.pre.f), conn_pre, mon.conn)?;
        }
        if self.mons.c15 {
            crate::mon_bcast::c15_step(cx, &info, &mut mon.c15, &self.codec, &self.cfg_of(&cx.pre.f), conn_pre)?;
        }
        if self.mons.c16 {
            crate::mon_bcast::c16_step(cx, &info, &mut mon.c16, &self.codec, &self.cfg_of(&cx.pre.f))?;
        }
        if self.mons.c13 {
            crate::mon_timers::c13_step(cx, &mut mon.c13, conn_pre, self.policy == TimerPolicy::DeadlineOrder)?;
        }
        mon.own = own_post;
        Ok(())
    }

    fn state(&self, node: &Node<CoreMon>, view: &View) -> Result<(), Viol> {
        if self.mons.c13 {
            crate::mon_timers::c13_state(node, view, &self.cfg_of(&node.f))?;
        }
        Ok(())
    }
}

impl CoreSpec {
    pub fn cfg_of(&self, f: &F) -> Cfg {
        // set_config events replace the configuration; read it back from the
        // hook snapshot's debug string only when the alphabet changes it
        if self.alpha.api.iter().any(|e| matches!(e, Ev::SetConfig(_))) {
            let s = f.verif_snapshot().config;
            let mut c = self.cfg.clone();
            for e in &self.alpha.api {
                if let Ev::SetConfig(k) = e {
                    if format!("{:?}", k.to_config()) == s {
                        c = (**k).clone();
                    }
                }
            }
            c
        } else {
            self.cfg.clone()
        }
    }
    pub fn current_max_packet(&self, f: &F) -> usize {
        self.cfg_of(f).max_packet
    }
}

/// Builds seed histories by running events on a scratch instance and
/// letting the caller pick outstanding timers by predicate.
pub struct SeedBuilder {
    pub f: F,
    pub timers: Vec<TimerKey>,
    pub hist: Vec<HistStep>,
    pub codec: FixCodec,
}

impl SeedBuilder {
    pub fn new(spec: &CoreSpec) -> Self {
        let (f, _) = spec.fresh();
        SeedBuilder { f, timers: vec![], hist: vec![], codec: spec.codec }
    }
    /// A long-lived instance, second counter: complete probe rounds (probe
    /// timer, the target's matching Ack, the indirect-stage timer) until the
    /// 8-bit probe number reaches `target`.
    pub fn age_probe_number(&mut self, target: u8) -> &mut Self {
        for _ in 0..600 {
            if self.f.verif_snapshot().probe_number == target {
                break;
            }
            self.fire(|t| matches!(t, TimerKey::ProbeRandomMember(_)));
            let s = self.f.verif_snapshot();
            if let Some(m) = s.probe_target {
                let me = *self.f.identity();
                let ack = dgram(&self.codec, *m.id(), m.incarnation(), me, Message::Ack(s.probe_number), None, &[]);
                self.ev(Ev::Data(ack));
                self.fire(|t| matches!(t, TimerKey::SendIndirectProbe { .. }));
            }
        }
        assert_eq!(self.f.verif_snapshot().probe_number, target, "seed: could not age the probe number");
        self
    }
    pub fn ev(&mut self, ev: Ev) -> &mut Self {
        self.ev_with(ev, &[])
    }
    pub fn ev_with(&mut self, ev: Ev, script: &[u32]) -> &mut Self {
        // extend the script with zeros as needed (default answers)
        let mut s = script.to_vec();
        loop {
            let mut c = self.f.clone();
            let out = run_event(&mut c, &ev, &s);
            if out.extra_draws == 0 {
                if let Ev::Timer(t) = &ev {
                    if let Some(p) = self.timers.iter().position(|x| x == t) {
                        self.timers.remove(p);
                    }
                }
                self.timers.extend(out.timers().map(|(_, t)| t));
                self.f = c;
                break;
            }
            for _ in 0..out.extra_draws {
                s.push(0);
            }
        }
        self.hist.push(HistStep { ev, script: s });
        self
    }
    pub fn fire(&mut self, pred: impl Fn(&TimerKey) -> bool) -> &mut Self {
        let t = *self.timers.iter().find(|t| pred(t)).expect("seed: no such outstanding timer");
        self.ev(Ev::Timer(t))
    }
    pub fn view(&self) -> View {
        View::of(&self.f)
    }
    /// A long-lived instance: leave / drain every (now stale) timer / reuse,
    /// until the 8-bit timer token reaches `target`. Odd targets end defunct,
    /// even ones active. Counters near their wrap-around are start states no
    /// short history reaches.
    pub fn age_token(&mut self, target: u8) -> &mut Self {
        for _ in 0..400 {
            if self.f.verif_snapshot().timer_token == target {
                break;
            }
            self.ev(Ev::Leave);
            while let Some(t) = self.timers.first().copied() {
                self.ev(Ev::Timer(t));
            }
            if self.f.verif_snapshot().timer_token == target {
                break;
            }
            self.ev(Ev::Reuse);
        }
        assert_eq!(self.f.verif_snapshot().timer_token, target, "seed: could not age the timer token");
        self
    }
    pub fn done(&self) -> Vec<HistStep> {
        self.hist.clone()
    }
}
