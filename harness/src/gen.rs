//! Generic (over identity and codec) helpers for the checks that exercise
//! the bundled serde codecs: identities, a wire-format trait for the
//! independent grammar parser, a recording runtime and guarded calls.
use crate::rng::ChoiceRng;
use bytes::Buf;
use foca::{BincodeCodec, Codec, Foca, Header, Identity, Member, Message, Notification, OwnedNotification, PostcardCodec, Runtime, Timer};
use serde::{de::DeserializeOwned, Deserialize, Serialize};
use std::panic::{catch_unwind, AssertUnwindSafe};
use std::time::Duration;

/// Identity with a length-prefixed field (variable-length on the wire).
#[derive(Clone, Debug, PartialEq, Eq, Hash, PartialOrd, Ord, Serialize, Deserialize)]
pub struct SId {
    pub a: u64,
    pub s: String,
}
impl Identity for SId {
    type Addr = u64;
    fn renew(&self) -> Option<Self> {
        None
    }
    fn addr(&self) -> u64 {
        self.a
    }
    fn win_addr_conflict(&self, o: &Self) -> bool {
        self.s > o.s
    }
}
pub fn sid(a: u64, s: &str) -> SId {
    SId { a, s: s.to_string() }
}

/// Plain-integer identity (varint-encoded by both serde codecs).
#[derive(Clone, Copy, Debug, PartialEq, Eq, Hash, PartialOrd, Ord, Serialize, Deserialize)]
pub struct NId {
    pub a: u64,
    pub g: u32,
}
impl Identity for NId {
    type Addr = u64;
    fn renew(&self) -> Option<Self> {
        Some(NId { a: self.a, g: self.g.checked_add(1)? })
    }
    fn addr(&self) -> u64 {
        self.a
    }
    fn win_addr_conflict(&self, o: &Self) -> bool {
        self.g > o.g
    }
}

/// Identity made of single-byte fields (serde emits these one byte at a
/// time, unlike varints / strings): an IPv4-style address.
#[derive(Clone, Copy, Debug, PartialEq, Eq, Hash, PartialOrd, Ord, Serialize, Deserialize)]
pub struct BId {
    pub ip: [u8; 4],
    pub port: u16,
    pub tag: u8,
    pub flag: bool,
}
impl Identity for BId {
    type Addr = ([u8; 4], u16);
    fn renew(&self) -> Option<Self> {
        Some(BId { tag: self.tag.checked_add(1)?, ..*self })
    }
    fn addr(&self) -> ([u8; 4], u16) {
        (self.ip, self.port)
    }
    fn win_addr_conflict(&self, o: &Self) -> bool {
        self.tag > o.tag
    }
}

/// Independent decoding of a wire format, for the grammar parser.
pub trait Wire<T>: Clone + Send + Sync {
    fn name(&self) -> &'static str;
    fn header(&self, cur: &mut &[u8]) -> Result<Header<T>, String>;
    fn member(&self, cur: &mut &[u8]) -> Result<Member<T>, String>;
}

#[derive(Clone, Copy)]
pub struct PostcardWire;
impl<T: DeserializeOwned> Wire<T> for PostcardWire {
    fn name(&self) -> &'static str {
        "postcard"
    }
    fn header(&self, cur: &mut &[u8]) -> Result<Header<T>, String> {
        let (h, rest) = postcard::take_from_bytes::<Header<T>>(cur).map_err(|e| e.to_string())?;
        *cur = rest;
        Ok(h)
    }
    fn member(&self, cur: &mut &[u8]) -> Result<Member<T>, String> {
        let (h, rest) = postcard::take_from_bytes::<Member<T>>(cur).map_err(|e| e.to_string())?;
        *cur = rest;
        Ok(h)
    }
}

pub type BinCfg = bincode::config::Configuration<bincode::config::LittleEndian, bincode::config::Varint, bincode::config::Limit<65536>>;
pub fn bin_limited() -> BinCfg {
    bincode::config::standard().with_limit::<65536>()
}

#[derive(Clone, Copy)]
pub struct BincodeWire;
impl<T: DeserializeOwned> Wire<T> for BincodeWire {
    fn name(&self) -> &'static str {
        "bincode"
    }
    fn header(&self, cur: &mut &[u8]) -> Result<Header<T>, String> {
        let (h, n) = bincode::serde::decode_from_slice::<Header<T>, _>(cur, bin_limited()).map_err(|e| e.to_string())?;
        *cur = &cur[n..];
        Ok(h)
    }
    fn member(&self, cur: &mut &[u8]) -> Result<Member<T>, String> {
        let (h, n) = bincode::serde::decode_from_slice::<Member<T>, _>(cur, bin_limited()).map_err(|e| e.to_string())?;
        *cur = &cur[n..];
        Ok(h)
    }
}

/// bincode with a NON-default configuration (the codec must decode with the
/// configuration it was built with, not with `standard()`)
#[derive(Clone, Copy)]
pub struct BincodeBeWire;
impl<T: DeserializeOwned> Wire<T> for BincodeBeWire {
    fn name(&self) -> &'static str {
        "bincode-big-endian"
    }
    fn header(&self, cur: &mut &[u8]) -> Result<Header<T>, String> {
        let cfg = bincode::config::standard().with_big_endian().with_limit::<65536>();
        let (h, n) = bincode::serde::decode_from_slice::<Header<T>, _>(cur, cfg).map_err(|e| e.to_string())?;
        *cur = &cur[n..];
        Ok(h)
    }
    fn member(&self, cur: &mut &[u8]) -> Result<Member<T>, String> {
        let cfg = bincode::config::standard().with_big_endian().with_limit::<65536>();
        let (h, n) = bincode::serde::decode_from_slice::<Member<T>, _>(cur, cfg).map_err(|e| e.to_string())?;
        *cur = &cur[n..];
        Ok(h)
    }
}

#[derive(Clone, Copy)]
pub struct BincodeLegacyWire;
impl<T: DeserializeOwned> Wire<T> for BincodeLegacyWire {
    fn name(&self) -> &'static str {
        "bincode-legacy"
    }
    fn header(&self, cur: &mut &[u8]) -> Result<Header<T>, String> {
        let cfg = bincode::config::legacy().with_limit::<65536>();
        let (h, n) = bincode::serde::decode_from_slice::<Header<T>, _>(cur, cfg).map_err(|e| e.to_string())?;
        *cur = &cur[n..];
        Ok(h)
    }
    fn member(&self, cur: &mut &[u8]) -> Result<Member<T>, String> {
        let cfg = bincode::config::legacy().with_limit::<65536>();
        let (h, n) = bincode::serde::decode_from_slice::<Member<T>, _>(cur, cfg).map_err(|e| e.to_string())?;
        *cur = &cur[n..];
        Ok(h)
    }
}

impl Wire<crate::doubles::Id> for crate::doubles::FixCodec {
    fn name(&self) -> &'static str {
        if self.var {
            "fixcodec-variable-identities"
        } else {
            "fixcodec"
        }
    }
    fn header(&self, cur: &mut &[u8]) -> Result<Header<crate::doubles::Id>, String> {
        self.parse_header(cur).map_err(|e| e.to_string())
    }
    fn member(&self, cur: &mut &[u8]) -> Result<Member<crate::doubles::Id>, String> {
        self.parse_member(cur).map_err(|e| e.to_string())
    }
}

#[derive(Clone, Debug, PartialEq, Eq)]
pub struct GParsed<T> {
    pub header: Header<T>,
    pub header_len: usize,
    pub updates: Option<Vec<Member<T>>>,
    pub items: Vec<Vec<u8>>,
}

pub fn g_piggybacks<T>(m: &Message<T>) -> bool {
    !matches!(m, Message::Announce | Message::TurnUndead | Message::Broadcast)
}
pub fn g_items_allowed<T>(m: &Message<T>) -> bool {
    !matches!(m, Message::Announce | Message::TurnUndead)
}

/// The datagram grammar of C07, generic over the wire format.
pub fn g_parse<T, W: Wire<T>>(w: &W, bytes: &[u8]) -> Result<GParsed<T>, String> {
    let mut cur: &[u8] = bytes;
    let header = w.header(&mut cur).map_err(|e| format!("header: {e}"))?;
    let header_len = bytes.len() - cur.len();
    let mut updates = None;
    if !g_items_allowed(&header.message) {
        if !cur.is_empty() {
            return Err(format!("{} bytes after a header-only kind", cur.len()));
        }
        return Ok(GParsed { header, header_len, updates, items: vec![] });
    }
    if g_piggybacks(&header.message) && !cur.is_empty() {
        if cur.len() < 2 {
            return Err("truncated update count".into());
        }
        let n = cur.get_u16() as usize;
        let mut v = Vec::with_capacity(n);
        for k in 0..n {
            v.push(w.member(&mut cur).map_err(|e| format!("update {k} of {n}: {e}"))?);
        }
        updates = Some(v);
    }
    let mut items = Vec::new();
    while !cur.is_empty() {
        if cur.len() < 2 {
            return Err("truncated item length".into());
        }
        let l = cur.get_u16() as usize;
        if l == 0 {
            return Err("empty custom item".into());
        }
        if cur.len() < l {
            return Err(format!("item of {l} bytes but {} left", cur.len()));
        }
        items.push(cur[..l].to_vec());
        cur = &cur[l..];
    }
    Ok(GParsed { header, header_len, updates, items })
}

#[derive(Clone, Debug, PartialEq, Eq)]
pub enum GEffect<T> {
    Send(T, Vec<u8>),
    Timer(Duration, Timer<T>),
    Note(OwnedNotification<T>),
}

pub struct GRuntime<T> {
    pub log: Vec<GEffect<T>>,
}
impl<T> Default for GRuntime<T> {
    fn default() -> Self {
        GRuntime { log: Vec::new() }
    }
}
impl<T: Identity> Runtime<T> for GRuntime<T> {
    fn notify(&mut self, n: Notification<'_, T>) {
        self.log.push(GEffect::Note(n.to_owned()));
    }
    fn send_to(&mut self, to: T, data: &[u8]) {
        self.log.push(GEffect::Send(to, data.to_vec()));
    }
    fn submit_after(&mut self, event: Timer<T>, after: Duration) {
        self.log.push(GEffect::Timer(after, event));
    }
}
impl<T> GRuntime<T> {
    pub fn sends(&self) -> impl Iterator<Item = (&T, &Vec<u8>)> {
        self.log.iter().filter_map(|e| if let GEffect::Send(t, d) = e { Some((t, d)) } else { None })
    }
    pub fn timers(&self) -> impl Iterator<Item = &Timer<T>> {
        self.log.iter().filter_map(|e| if let GEffect::Timer(_, t) = e { Some(t) } else { None })
    }
}

/// Accept-everything broadcast handler (key = the item itself).
#[derive(Clone, Debug, Default)]
pub struct AcceptAll {
    pub calls: Vec<Vec<u8>>,
}
#[derive(Clone, Debug, PartialEq, Eq)]
pub struct VKey(pub Vec<u8>);
impl foca::Invalidates for VKey {
    fn invalidates(&self, other: &Self) -> bool {
        self.0 == other.0
    }
}
#[derive(Debug)]
pub struct Never;
impl std::fmt::Display for Never {
    fn fmt(&self, f: &mut std::fmt::Formatter<'_>) -> std::fmt::Result {
        f.write_str("never")
    }
}
impl std::error::Error for Never {}
impl<T> foca::BroadcastHandler<T> for AcceptAll {
    type Key = VKey;
    type Error = Never;
    fn receive_item(&mut self, data: &[u8], _sender: Option<&T>) -> Result<Option<VKey>, Never> {
        self.calls.push(data.to_vec());
        Ok(Some(VKey(data.to_vec())))
    }
}

pub type GF<T, C> = Foca<T, C, ChoiceRng, AcceptAll>;

/// Run a closure on a generic Foca, catching panics. Returns Err(message)
/// on panic.
pub fn guarded<T: Identity, C, R>(f: &mut GF<T, C>, call: impl FnOnce(&mut GF<T, C>) -> R) -> Result<R, String> {
    catch_unwind(AssertUnwindSafe(|| call(f))).map_err(|_| crate::core::take_last_panic().unwrap_or_else(|| "panic".into()))
}

pub fn codec_err_kind<E>(r: &Result<(), foca::Error>) -> Option<crate::core::ErrKind> {
    let _ = std::marker::PhantomData::<E>;
    r.as_ref().err().map(crate::core::ErrKind::from)
}

/// Marker helpers so call sites can name the bundled codecs tersely.
pub fn postcard() -> PostcardCodec {
    PostcardCodec
}
pub fn bincode_std() -> BincodeCodec<bincode::config::Configuration> {
    BincodeCodec(bincode::config::standard())
}

pub fn is_codec<T, C: Codec<T>>(_c: &C) {}
#[allow(dead_code)]
fn _assert_impls() {
    is_codec::<SId, _>(&postcard());
    is_codec::<SId, _>(&bincode_std());
    let _ = SId::deserialize::<serde_json::Value>;
}
