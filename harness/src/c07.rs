//! C07: every emitted datagram is well-formed, bounded and accepted by its
//! peer. Dedicated size sweep (E3): every message kind produced through its
//! real path, for every max_packet_size from "a header just fits" to
//! "everything fits + 3", over memberships, backlogs and custom items, for
//! four wire formats; plus the grammar monitor along E1 explorations.
use crate::checks_e1::calibrated;
use crate::checks_e1::run_variants;
use crate::core::{Cfg, ErrKind};
use crate::doubles::{id, FixCodec, Id};
use crate::gen::*;
use crate::report::Report;
use crate::rng::ChoiceRng;
use foca::{Codec, Foca, Header, Identity, Member, Message, State, Timer};
use rayon::prelude::*;
use serde_json::json;
use std::collections::BTreeMap;
use std::fmt::Debug;

#[derive(Clone, Copy, Debug, PartialEq, Eq, PartialOrd, Ord)]
pub enum Scn {
    Ping,
    Ack,
    PingReq,
    IndirectPing,
    IndirectAck,
    ForwardedAck,
    Gossip,
    Announce,
    Feed,
    Broadcast,
    TurnUndeadReply,
    TurnUndeadTimeout,
}
pub const ALL_SCN: [Scn; 12] = [
    Scn::Ping,
    Scn::Ack,
    Scn::PingReq,
    Scn::IndirectPing,
    Scn::IndirectAck,
    Scn::ForwardedAck,
    Scn::Gossip,
    Scn::Announce,
    Scn::Feed,
    Scn::Broadcast,
    Scn::TurnUndeadReply,
    Scn::TurnUndeadTimeout,
];

pub struct World<T, C, W> {
    pub label: &'static str,
    pub codec: C,
    pub wire: W,
    /// identity number k (0 = the instance under test)
    pub ident: fn(usize) -> T,
}

fn enc_header<T, C: Codec<T>>(codec: &mut C, h: &Header<T>) -> Vec<u8> {
    let mut v = Vec::new();
    let _ = codec.encode_header(h, &mut v);
    v
}

#[derive(Default, Clone, Debug)]
pub struct SweepStats {
    pub cases: u64,
    pub datagrams: u64,
    pub skipped_inputs_too_big: u64,
    pub per_kind: BTreeMap<String, u64>,
    pub truncated_feeds: u64,
    pub header_only_piggyback: u64,
    pub peer_accepts: u64,
    pub distinct: std::collections::BTreeSet<u64>,
}

impl SweepStats {
    fn merge(&mut self, o: SweepStats) {
        self.cases += o.cases;
        self.datagrams += o.datagrams;
        self.skipped_inputs_too_big += o.skipped_inputs_too_big;
        self.truncated_feeds += o.truncated_feeds;
        self.header_only_piggyback += o.header_only_piggyback;
        self.peer_accepts += o.peer_accepts;
        for (k, v) in o.per_kind {
            *self.per_kind.entry(k).or_default() += v;
        }
        self.distinct.extend(o.distinct);
    }
}

fn kind_of<T>(m: &Message<T>) -> &'static str {
    match m {
        Message::Ping(_) => "Ping",
        Message::Ack(_) => "Ack",
        Message::PingReq { .. } => "PingReq",
        Message::IndirectPing { .. } => "IndirectPing",
        Message::IndirectAck { .. } => "IndirectAck",
        Message::ForwardedAck { .. } => "ForwardedAck",
        Message::Announce => "Announce",
        Message::Feed => "Feed",
        Message::Gossip => "Gossip",
        Message::Broadcast => "Broadcast",
        Message::TurnUndead => "TurnUndead",
    }
}

/// One case: returns the violation text, if any.
#[allow(clippy::too_many_arguments)]
fn run_case<T, C, W>(w: &World<T, C, W>, scn: Scn, n: usize, d: usize, backlog: usize, items: usize, packet: usize, st: &mut SweepStats) -> Result<(), String>
where
    T: Identity + Clone + Debug + Eq + Send + Sync,
    T::Addr: Clone,
    C: Codec<T> + Clone + Send + Sync,
    C::Error: std::error::Error,
    W: Wire<T>,
{
    let me = (w.ident)(0);
    let cfg = Cfg { max_packet: packet, notify_down: true, fanout: 3, max_tx: 5, ..Cfg::default() };
    let mut f: GF<T, C> = Foca::with_custom_broadcast(me.clone(), cfg.to_config(), ChoiceRng::new(), w.codec.clone(), AcceptAll::default());
    let mut rt = GRuntime::<T>::default();
    let peers: Vec<T> = (1..=n).map(|k| (w.ident)(k)).collect();
    let downs: Vec<T> = (20..20 + d).map(|k| (w.ident)(k)).collect();
    let mut codec = w.codec.clone();
    let desc = format!("{} scenario {:?} members={} down={} backlog={} items={} max_packet_size={}", w.label, scn, n, d, backlog, items, packet);
    let g = |r: Result<Result<(), foca::Error>, String>| -> Result<Result<(), foca::Error>, String> { r.map_err(|p| format!("PANIC {p} in {desc}")) };
    // membership without backlog, then a backlog of `backlog` updates
    g(guarded(&mut f, |f| f.apply_many(peers.iter().map(|p| Member::alive(p.clone())).chain(downs.iter().map(|p| Member::new(p.clone(), 0, State::Down))), false, &mut rt)))?.ok();
    g(guarded(&mut f, |f| f.apply_many(peers.iter().take(backlog).map(|p| Member::new(p.clone(), 1, State::Alive)), true, &mut rt)))?.ok();
    if backlog > n {
        // more backlog than members: Down records of strangers
        g(guarded(&mut f, |f| f.apply_many((40..40 + backlog - n).map(|k| Member::new((w.ident)(k), 0, State::Down)), true, &mut rt)))?.ok();
    }
    for (k, sz) in [1usize, 2, 7, 64].iter().take(items).enumerate() {
        let data = vec![k as u8 + 1; *sz];
        let _ = guarded(&mut f, |f| f.add_broadcast(&data)).map_err(|p| format!("PANIC {p} in add_broadcast, {desc}"))?;
    }
    let token = rt.timers().find_map(|t| if let Timer::ProbeRandomMember(k) = t { Some(*k) } else { None }).unwrap_or(0);
    rt.log.clear();
    let hdr = |src: &T, msg: Message<T>| Header { src: src.clone(), src_incarnation: 0, dst: me.clone(), message: msg };
    let p1 = peers.first().cloned();
    let p2 = peers.get(1).cloned();
    // trigger
    let mut input_too_big = false;
    let mut deliver = |f: &mut GF<T, C>, rt: &mut GRuntime<T>, bytes: Vec<u8>| -> Result<(), String> {
        let r = guarded(f, |f| f.handle_data(&bytes, &mut *rt)).map_err(|p| format!("PANIC {p} in handle_data, {desc}"))?;
        if let Err(foca::Error::DataTooBig) = r {
            input_too_big = true;
        }
        Ok(())
    };
    match scn {
        Scn::Ping | Scn::PingReq => {
            if n == 0 {
                return Ok(());
            }
            g(guarded(&mut f, |f| f.handle_timer(Timer::ProbeRandomMember(token), &mut rt)))?.ok();
            if scn == Scn::PingReq {
                let probed = rt.timers().find_map(|t| if let Timer::SendIndirectProbe { probed_id, .. } = t { Some(probed_id.clone()) } else { None });
                rt.log.clear();
                if let Some(p) = probed {
                    g(guarded(&mut f, |f| f.handle_timer(Timer::SendIndirectProbe { probed_id: p, token }, &mut rt)))?.ok();
                }
            }
        }
        Scn::Ack => {
            let Some(p) = p1 else { return Ok(()) };
            deliver(&mut f, &mut rt, enc_header(&mut codec, &hdr(&p, Message::Ping(3))))?;
        }
        Scn::IndirectPing => {
            let (Some(a), Some(b)) = (p1, p2) else { return Ok(()) };
            deliver(&mut f, &mut rt, enc_header(&mut codec, &hdr(&a, Message::PingReq { target: b, probe_number: 4 })))?;
        }
        Scn::IndirectAck => {
            let (Some(a), Some(b)) = (p1, p2) else { return Ok(()) };
            deliver(&mut f, &mut rt, enc_header(&mut codec, &hdr(&a, Message::IndirectPing { origin: b, probe_number: 5 })))?;
        }
        Scn::ForwardedAck => {
            let (Some(a), Some(b)) = (p1, p2) else { return Ok(()) };
            deliver(&mut f, &mut rt, enc_header(&mut codec, &hdr(&a, Message::IndirectAck { target: b, probe_number: 6 })))?;
        }
        Scn::Gossip => {
            g(guarded(&mut f, |f| f.gossip(&mut rt)))?.ok();
        }
        Scn::Announce => {
            let dst = (w.ident)(9);
            g(guarded(&mut f, |f| f.announce(dst, &mut rt)))?.ok();
        }
        Scn::Feed => {
            let newcomer = (w.ident)(10);
            deliver(&mut f, &mut rt, enc_header(&mut codec, &hdr(&newcomer, Message::Announce)))?;
        }
        Scn::Broadcast => {
            g(guarded(&mut f, |f| f.broadcast(&mut rt)))?.ok();
        }
        Scn::TurnUndeadReply => {
            let Some(dn) = downs.first().cloned() else { return Ok(()) };
            deliver(&mut f, &mut rt, enc_header(&mut codec, &hdr(&dn, Message::Ping(8))))?;
        }
        Scn::TurnUndeadTimeout => {
            let Some(p) = p1 else { return Ok(()) };
            g(guarded(&mut f, |f| f.apply_many(std::iter::once(Member::new(p.clone(), 1, State::Suspect)), true, &mut rt)))?.ok();
            rt.log.clear();
            g(guarded(&mut f, |f| f.handle_timer(Timer::ChangeSuspectToDown { member_id: p, incarnation: 1, token }, &mut rt)))?.ok();
        }
    }
    // follow-up sends on the same instance: whatever the trigger left behind
    // (e.g. a header that failed to encode at this packet size) must not
    // leak into the next datagrams
    g(guarded(&mut f, |f| f.gossip(&mut rt)))?.ok();
    let dst9 = (w.ident)(9);
    g(guarded(&mut f, |f| f.announce(dst9, &mut rt)))?.ok();
    st.cases += 1;
    if input_too_big {
        st.skipped_inputs_too_big += 1;
    }
    // oracle over everything that was sent
    let active: Vec<T> = f.iter_members().map(|m| m.id().clone()).collect();
    for (to, bytes) in rt.sends() {
        st.datagrams += 1;
        if bytes.len() > packet {
            return Err(format!("datagram of {} bytes exceeds max_packet_size; {desc}", bytes.len()));
        }
        let p = g_parse(&w.wire, bytes).map_err(|e| format!("malformed datagram ({e}): {:02x?}; {desc}", bytes))?;
        *st.per_kind.entry(kind_of(&p.header.message).to_string()).or_default() += 1;
        st.distinct.insert(crate::core::hash128(&(w.label, bytes)) as u64);
        if p.header.src != me {
            return Err(format!("src {:?} is not the sender's identity; {desc}", p.header.src));
        }
        if &p.header.dst != to {
            return Err(format!("dst {:?} differs from the destination {:?}; {desc}", p.header.dst, to));
        }
        if g_piggybacks(&p.header.message) && p.updates.is_none() {
            st.header_only_piggyback += 1;
        }
        if matches!(p.header.message, Message::Feed) {
            let us = p.updates.clone().unwrap_or_default();
            let eligible = active.iter().filter(|a| *a != to).count();
            if us.len() < eligible {
                st.truncated_feeds += 1;
            }
            for (i, u) in us.iter().enumerate() {
                if u.state() == State::Down || u.id() == to || *u.id() == me || !active.contains(u.id()) {
                    return Err(format!("Feed lists {:?} (Down, receiver, sender or not active); {desc}", u));
                }
                if us[..i].iter().any(|x| x.id() == u.id()) {
                    return Err(format!("Feed lists {:?} twice; {desc}", u.id()));
                }
            }
        }
        // a fresh real peer with the same codec and packet size accepts it
        let mut peer: GF<T, C> = Foca::with_custom_broadcast(to.clone(), cfg.to_config(), ChoiceRng::new(), w.codec.clone(), AcceptAll::default());
        let mut prt = GRuntime::<T>::default();
        let r = guarded(&mut peer, |pf| pf.handle_data(bytes, &mut prt)).map_err(|pn| format!("PANIC {pn} in the receiving peer; {desc}"))?;
        match r.as_ref().err().map(ErrKind::from) {
            Some(k @ (ErrKind::Decode | ErrKind::MalformedPacket | ErrKind::DataTooBig | ErrKind::DataFromOurselves)) => {
                return Err(format!("the destination peer rejected the datagram with {k:?}: {:02x?}; {desc}", bytes));
            }
            _ => st.peer_accepts += 1,
        }
        if peer.verif_handler().calls != p.items {
            return Err(format!("receiver's handler saw {:?} but the datagram frames {:?}; {desc}", peer.verif_handler().calls, p.items));
        }
    }
    Ok(())
}

pub fn sweep<T, C, W>(w: &World<T, C, W>, thorough: bool, rep: &mut Report) -> SweepStats
where
    T: Identity + Clone + Debug + Eq + Send + Sync,
    T::Addr: Clone,
    C: Codec<T> + Clone + Send + Sync,
    C::Error: std::error::Error,
    W: Wire<T>,
{
    let ns: &[usize] = if thorough { &[0, 1, 2, 3, 4, 5, 6] } else { &[0, 1, 2, 4, 6] };
    let ds: &[usize] = if thorough { &[0, 1, 2] } else { &[0, 2] };
    let bs: &[usize] = if thorough { &[0, 1, 2, 3, 4, 5, 6] } else { &[0, 1, 3, 6] };
    let is: &[usize] = if thorough { &[0, 1, 2, 3, 4] } else { &[0, 1, 3] };
    let mut cases = Vec::new();
    for scn in ALL_SCN {
        for &n in ns {
            for &d in ds {
                for &b in bs {
                    for &i in is {
                        cases.push((scn, n, d, b, i));
                    }
                }
            }
        }
    }
    // smallest packet: a header-only Announce between the two shortest ids
    let mut codec = w.codec.clone();
    let hmin = enc_header(&mut codec, &Header { src: (w.ident)(0), src_incarnation: 0, dst: (w.ident)(1), message: Message::Announce }).len();
    let results: Vec<(SweepStats, Option<String>)> = cases
        .par_iter()
        .map(|(scn, n, d, b, i)| {
            let mut st = SweepStats::default();
            // everything: header + count + all members/updates + all items
            let mut c2 = w.codec.clone();
            let mut mlen = 0usize;
            for k in 0..(*n + *d + *b + 2) {
                let mut v = Vec::new();
                let _ = c2.encode_member(&Member::new((w.ident)(k + 1), 1, State::Suspect), &mut v);
                mlen += v.len();
            }
            let everything = hmin + 24 + 2 + mlen + [3usize, 4, 9, 66][..(*i).min(4)].iter().sum::<usize>() + 3;
            let mut sizes: Vec<usize> = (hmin.saturating_sub(2)..=everything).collect();
            sizes.extend([1400, 65536]);
            for p in sizes {
                if let Err(e) = run_case(w, *scn, *n, *d, *b, *i, p, &mut st) {
                    return (st, Some(e));
                }
            }
            (st, None)
        })
        .collect();
    let mut total = SweepStats::default();
    for (st, e) in results {
        total.merge(st);
        if let Some(e) = e {
            let sig = if e.starts_with("PANIC") {
                "panic".to_string()
            } else {
                format!("c07:sweep:{}", e.split_whitespace().take(3).collect::<Vec<_>>().join("-"))
            };
            rep.violate(&sig, e, json!({"engine": "e3-c07-sweep", "codec": w.label}));
        }
    }
    total
}

fn fix_ident(k: usize) -> Id {
    id(k as u8, 0)
}
fn var_ident(k: usize) -> Id {
    // generation decides the encoded length (gen % 3 padding bytes)
    id(k as u8, (k % 3) as u8)
}
fn s_ident(k: usize) -> SId {
    SId { a: k as u64 * 1_000_003, s: "x".repeat(k % 4) }
}
fn b_ident(k: usize) -> BId {
    BId { ip: [10, 0, (k / 250) as u8, (k % 250) as u8], port: 7000 + k as u16, tag: 0, flag: k % 2 == 0 }
}
fn n_ident(k: usize) -> NId {
    NId { a: (k as u64) << (7 * (k % 5)), g: k as u32 }
}

/// The size sweep for the bundled codecs only (every scenario x every packet
/// size): used by C20 for its "datagrams stay well-formed when an encode runs
/// out of space mid-feed" clause. Violations go into `rep`.
pub fn bundled_codec_sweeps(th: bool, rep: &mut Report) -> Vec<serde_json::Value> {
    let mut rows = Vec::new();
    macro_rules! one {
        ($w:expr) => {{
            let w = $w;
            let st = sweep(&w, th, rep);
            rows.push(json!({"codec": w.label, "datagrams": st.datagrams, "feeds_truncated_by_packet_size": st.truncated_feeds, "accepted_by_fresh_real_peer": st.peer_accepts}));
        }};
    }
    one!(World { label: "postcard (String identity)", codec: foca::PostcardCodec, wire: PostcardWire, ident: s_ident });
    one!(World { label: "bincode standard() (String identity)", codec: foca::BincodeCodec(bincode::config::standard()), wire: BincodeWire, ident: s_ident });
    one!(World { label: "postcard (integer identity)", codec: foca::PostcardCodec, wire: PostcardWire, ident: n_ident });
    one!(World { label: "postcard (byte-field identity)", codec: foca::PostcardCodec, wire: PostcardWire, ident: b_ident });
    rows
}

pub fn c07(tier: &str) -> Report {
    let th = tier == "thorough";
    let mut rep = Report::new("C07", tier, "model_checking");
    let mut codecs = Vec::new();
    let mut total = SweepStats::default();
    macro_rules! one {
        ($w:expr) => {{
            let w = $w;
            let st = sweep(&w, th, &mut rep);
            codecs.push(json!({"codec": w.label, "cases": st.cases, "datagrams": st.datagrams, "distinct_datagrams": st.distinct.len(), "per_kind": st.per_kind, "feeds_truncated_by_packet_size": st.truncated_feeds, "piggybacking_datagrams_with_no_room_for_a_count": st.header_only_piggyback, "accepted_by_fresh_real_peer": st.peer_accepts, "cases_whose_input_datagram_exceeded_the_packet_size": st.skipped_inputs_too_big}));
            total.merge(st);
        }};
    }
    one!(World { label: "fixcodec (fixed-length identities)", codec: FixCodec { var: false, packed: false, ..FixCodec::default() }, wire: FixCodec { var: false, packed: false, ..FixCodec::default() }, ident: fix_ident });
    one!(World { label: "fixcodec (variable-length identities)", codec: FixCodec { var: true, packed: false, ..FixCodec::default() }, wire: FixCodec { var: true, packed: false, ..FixCodec::default() }, ident: var_ident });
    // a bit-packing codec: two bytes per member
    one!(World { label: "fixcodec (packed: 2-byte members)", codec: FixCodec { var: false, packed: true, ..FixCodec::default() }, wire: FixCodec { var: false, packed: true, ..FixCodec::default() }, ident: fix_ident });
    one!(World { label: "postcard (String identity)", codec: foca::PostcardCodec, wire: PostcardWire, ident: s_ident });
    one!(World { label: "bincode standard() (String identity)", codec: foca::BincodeCodec(bincode::config::standard()), wire: BincodeWire, ident: s_ident });
    one!(World { label: "postcard (integer identity)", codec: foca::PostcardCodec, wire: PostcardWire, ident: n_ident });
    one!(World { label: "postcard (byte-field identity)", codec: foca::PostcardCodec, wire: PostcardWire, ident: b_ident });
    rep.evaluations = total.datagrams;
    rep.distinct_nontrivial = total.distinct.len() as u64;
    rep.set("size_sweep", json!(codecs));
    for k in ["Ping", "Ack", "PingReq", "IndirectPing", "IndirectAck", "ForwardedAck", "Gossip", "Announce", "Feed", "Broadcast", "TurnUndead"] {
        if rep.violations.is_empty() && total.per_kind.get(k).copied().unwrap_or(0) == 0 {
            rep.machinery(format!("vacuous: no {k} datagram was produced by the size sweep"));
        }
    }
    // grammar monitor along E1 explorations
    let words = calibrated(&mut rep, 5, 4);
    run_variants("C07", tier, crate::checks_e1b::c07_variants(tier, &words), &mut rep);
    rep.rule = "size sweep: 12 real emission paths x memberships x backlogs x custom items x EVERY max_packet_size from below a header to everything-fits+3 (plus 1400 and 65536), 5 wire formats; each datagram parsed by an independent grammar parser and handed to a fresh real peer; plus the grammar monitor on every datagram of an E1 exploration. distinct = distinct datagram byte strings".into();
    rep.exhaustive = true;
    rep.sample(json!({"size_sweep_case": "Feed, 6 members, 2 down, backlog 3, 1 item, every packet size"}));
    rep.assume("for the serde wire formats the independent parser calls the postcard / bincode crates directly (not foca's Codec impl)");
    rep.assume("a header-only datagram of a piggybacking kind (no room for the count) counts as well-formed: payload.rs documents the tail as optional");
    rep
}
