//! C12: a probe round succeeds only on genuine evidence; indirect probing is
//! routed correctly. The harness computes "evidence" literally from the
//! statement and compares with what Foca does at the next round start.
use crate::core::*;
use crate::doubles::*;
use crate::e1::{viol, StepCtx, Viol};
use crate::grammar;
use crate::refmodel::*;
use foca::{Message, OwnedNotification as N, State};
use std::sync::atomic::{AtomicU64, Ordering::Relaxed};

#[derive(Clone, Debug, PartialEq, Eq, Hash)]
pub struct Round {
    pub target: Id,
    pub target_inc: u16,
    pub number: u8,
    pub asked: Vec<Id>,
    pub indirect_fired: bool,
    pub evidence: bool,
    pub aborted: bool,
}

#[derive(Clone, Debug, PartialEq, Eq, Hash, Default)]
pub struct C12State {
    pub round: Option<Round>,
}

/// outcome tallies: [evidence->no suspicion, no evidence->suspect+timer,
/// target changed, aborted, pingreq rounds, ping replies, relay hops,
/// rejected relays]
pub static C12_TALLY: [AtomicU64; 8] = [
    AtomicU64::new(0),
    AtomicU64::new(0),
    AtomicU64::new(0),
    AtomicU64::new(0),
    AtomicU64::new(0),
    AtomicU64::new(0),
    AtomicU64::new(0),
    AtomicU64::new(0),
];

pub fn c12_step(cx: &StepCtx<'_, impl Sized>, info: &InputInfo, st: &mut C12State, codec: &FixCodec, cfg: &Cfg, conn_pre: Conn, conn_post: Conn) -> Result<(), Viol> {
    let pre = cx.pre_view;
    let post = cx.post_view;
    let me_pre = pre.id;
    // ---- abort conditions seen in this call ------------------------------
    let epoch_end = cx.out.notes().any(|n| matches!(n, N::Idle | N::Defunct | N::Rejoin(_))) || pre.id != post.id || (matches!(cx.ev, Ev::ChangeId(_) | Ev::Reuse) && cx.out.res.is_ok());
    // ---- evidence --------------------------------------------------------
    if let (Some(r), Some(p)) = (st.round.as_mut(), info.admitted.as_ref()) {
        let _ = conn_pre;
        if info.sender_active && conn_post == Conn::Active && !epoch_end {
            match &p.header.message {
                Message::Ack(n) if p.header.src == r.target && *n == r.number => r.evidence = true,
                Message::ForwardedAck { probe_number, .. } if r.asked.contains(&p.header.src) && *probe_number == r.number => {
                    // each asked helper counts once
                    r.asked.retain(|h| *h != p.header.src);
                    r.evidence = true
                }
                _ => {}
            }
        }
    }
    // ---- the two probe timers --------------------------------------------
    match cx.ev {
        Ev::Timer(TimerKey::SendIndirectProbe { probed, .. }) if cx.timer_was_outstanding => {
            let reqs: Vec<(Id, grammar::Parsed)> = cx
                .out
                .sends()
                .filter_map(|(to, d)| grammar::parse(codec, d).ok().map(|p| (*to, p)))
                .filter(|(_, p)| matches!(p.header.message, Message::PingReq { .. }))
                .collect();
            let allowed = st.round.as_ref().is_some_and(|r| r.target == *probed && !r.evidence && !r.aborted) && pre.is_active(probed);
            if !allowed && !reqs.is_empty() {
                return Err(viol("c12:pingreq-not-allowed", format!("PingReq sent although the round of {} had an Ack already, was over, or the target is inactive", probed.show())));
            }
            if !reqs.is_empty() {
                C12_TALLY[4].fetch_add(1, Relaxed);
            }
            if reqs.len() > cfg.fanout {
                return Err(viol("c12:too-many-pingreq", format!("{} PingReq datagrams with num_indirect_probes={}", reqs.len(), cfg.fanout)));
            }
            let mut seen: Vec<Id> = Vec::new();
            for (to, p) in &reqs {
                let Message::PingReq { target, probe_number } = &p.header.message else { unreachable!() };
                let r = st.round.as_ref().unwrap();
                if target != &r.target || *probe_number != r.number {
                    return Err(viol("c12:pingreq-wrong-content", format!("PingReq names {} / number {} but the round probes {} / {}", target.show(), probe_number, r.target.show(), r.number)));
                }
                if to == probed || to.addr == probed.addr {
                    return Err(viol("c12:pingreq-to-target", format!("PingReq sent to the probed member {}", to.show())));
                }
                if to.addr == me_pre.addr {
                    return Err(viol("c12:pingreq-to-self", "PingReq sent to the instance itself".into()));
                }
                if !pre.is_active(to) {
                    return Err(viol("c12:pingreq-to-inactive", format!("PingReq sent to {} which is not an active member", to.show())));
                }
                if seen.contains(to) {
                    return Err(viol("c12:pingreq-duplicate", format!("two PingReq to {} in one round", to.show())));
                }
                seen.push(*to);
            }
            if let Some(r) = st.round.as_mut() {
                if r.target == *probed {
                    r.indirect_fired = true;
                    r.asked.extend(seen);
                }
            }
        }
        Ev::Timer(TimerKey::ProbeRandomMember(_)) if cx.timer_was_outstanding && !cx.out.effects.is_empty() => {
            // verdict on the previous round
            if let Some(r) = st.round.take() {
                let susp_timers: Vec<_> = cx.out.timers().filter(|(_, k)| matches!(k, TimerKey::ChangeSuspectToDown { member, .. } if *member == r.target)).collect();
                let rec_pre = pre.record_of(&r.target);
                let rec_post = post.record_of(&r.target);
                let incomplete = cx.out.res == Res::Err(ErrKind::IncompleteProbeCycle);
                if r.aborted || incomplete {
                    C12_TALLY[3].fetch_add(1, Relaxed);
                    if !susp_timers.is_empty() {
                        return Err(viol("c12:suspicion-after-aborted-round", format!("round of {} was aborted but a suspicion timeout was scheduled", r.target.show())));
                    }
                } else if r.evidence {
                    C12_TALLY[0].fetch_add(1, Relaxed);
                    let became_suspect = rec_pre.is_some_and(|m| m.state() == State::Alive) && rec_post.is_some_and(|m| m.state() == State::Suspect);
                    if !susp_timers.is_empty() || became_suspect {
                        return Err(viol("c12:suspected-despite-evidence", format!("{} acknowledged probe {} (directly or via an asked helper) but was suspected", r.target.show(), r.number)));
                    }
                } else {
                    let still = rec_pre.is_some_and(|m| m.state() != State::Down && m.incarnation() == r.target_inc);
                    if still {
                        C12_TALLY[1].fetch_add(1, Relaxed);
                        let ok_state = rec_post.is_some_and(|m| m.state() == State::Suspect && m.incarnation() == r.target_inc);
                        if !ok_state {
                            return Err(viol("c12:not-suspected-without-evidence", format!("no Ack / ForwardedAck for probe {} of {} yet its record is {:?}", r.number, r.target.show(), rec_post.map(show_member))));
                        }
                        let good: Vec<_> = susp_timers
                            .iter()
                            .filter(|(after, k)| matches!(k, TimerKey::ChangeSuspectToDown { inc, .. } if *inc == r.target_inc) && after.as_millis() as u64 == cfg.suspect_to_down)
                            .collect();
                        if good.len() != 1 || susp_timers.len() != 1 {
                            return Err(viol("c12:suspicion-timer-count", format!("expected exactly one ChangeSuspectToDown({}, inc {}) after {}ms, got {:?}", r.target.show(), r.target_inc, cfg.suspect_to_down, susp_timers)));
                        }
                    } else {
                        C12_TALLY[2].fetch_add(1, Relaxed);
                        // the verdict concerns a member that is still there:
                        // one that went away during the round (Down, or Down
                        // and forgotten) is neither suspected nor brought back
                        let gone = rec_pre.is_none() || rec_pre.is_some_and(|m| m.state() == State::Down);
                        // (a timeout scheduled for an identity that is not there
                        // any more is tolerated: it can only be stale, C11's business)
                        if gone && rec_post.map(show_member) != rec_pre.map(show_member) {
                            return Err(viol(
                                "c12:verdict-on-departed-member",
                                format!("round of {} ended after it had gone ({:?}), yet its record is now {:?} and {} suspicion timeouts were scheduled", r.target.show(), rec_pre.map(show_member), rec_post.map(show_member), susp_timers.len()),
                            ));
                        }
                    }
                }
            }
            // the new round
            let pings: Vec<(Id, grammar::Parsed)> = cx
                .out
                .sends()
                .filter_map(|(to, d)| grammar::parse(codec, d).ok().map(|p| (*to, p)))
                .filter(|(_, p)| matches!(p.header.message, Message::Ping(_)))
                .collect();
            if pings.len() > 1 {
                return Err(viol("c12:two-pings-in-one-round", format!("{} Pings in one probe round", pings.len())));
            }
            if let Some((to, p)) = pings.first() {
                let Message::Ping(n) = p.header.message else { unreachable!() };
                if !post.is_active(to) && !pre.is_active(to) {
                    return Err(viol("c12:ping-to-inactive", format!("Ping sent to {} which is not active", to.show())));
                }
                let inc = post.record_of(to).map(|m| m.incarnation()).unwrap_or(0);
                st.round = Some(Round { target: *to, target_inc: inc, number: n, asked: vec![], indirect_fired: false, evidence: false, aborted: false });
            }
        }
        _ => {}
    }
    if epoch_end {
        if let Some(r) = st.round.as_mut() {
            r.aborted = true;
        }
    }
    // ---- replies and relays -----------------------------------------------
    if let Some(p) = &info.admitted {
        let src = p.header.src;
        let sent: Vec<(Id, grammar::Parsed)> = cx.out.sends().filter_map(|(to, d)| grammar::parse(codec, d).ok().map(|q| (*to, q))).collect();
        let still_me = pre.id == post.id;
        let live = conn_post == Conn::Active && still_me && info.sender_active && post.is_active(&src);
        match &p.header.message {
            Message::Ping(n) if live => {
                C12_TALLY[5].fetch_add(1, Relaxed);
                let ok = sent.iter().filter(|(to, q)| *to == src && q.header.message == Message::Ack(*n)).count() == 1;
                if !ok {
                    return Err(viol("c12:ping-not-acked", format!("Ping({n}) from active member {} was not answered with exactly one Ack({n})", src.show())));
                }
            }
            Message::PingReq { target, probe_number } if live => {
                if *target == pre.id {
                    C12_TALLY[7].fetch_add(1, Relaxed);
                    if cx.out.res != Res::Err(ErrKind::IndirectForOurselves) || sent.iter().any(|(_, q)| matches!(q.header.message, Message::IndirectPing { .. })) {
                        return Err(viol("c12:relay-for-ourselves-accepted", "PingReq naming the instance itself was not rejected".into()));
                    }
                } else {
                    C12_TALLY[6].fetch_add(1, Relaxed);
                    let want = Message::IndirectPing { origin: src, probe_number: *probe_number };
                    if sent.iter().filter(|(to, q)| to == target && q.header.message == want).count() != 1 {
                        return Err(viol("c12:pingreq-not-relayed", format!("PingReq({}, {}) from {} did not produce IndirectPing(origin {}, {}) to {}", target.show(), probe_number, src.show(), src.show(), probe_number, target.show())));
                    }
                }
            }
            Message::IndirectPing { origin, probe_number } if live => {
                if *origin == pre.id {
                    C12_TALLY[7].fetch_add(1, Relaxed);
                    if cx.out.res != Res::Err(ErrKind::IndirectForOurselves) || sent.iter().any(|(_, q)| matches!(q.header.message, Message::IndirectAck { .. })) {
                        return Err(viol("c12:relay-for-ourselves-accepted", "IndirectPing naming the instance itself as origin was not rejected".into()));
                    }
                } else {
                    C12_TALLY[6].fetch_add(1, Relaxed);
                    let want = Message::IndirectAck { target: *origin, probe_number: *probe_number };
                    if sent.iter().filter(|(to, q)| *to == src && q.header.message == want).count() != 1 {
                        return Err(viol("c12:indirectping-not-acked", format!("IndirectPing(origin {}, {}) from {} did not produce IndirectAck(target {}, {}) back to it", origin.show(), probe_number, src.show(), origin.show(), probe_number)));
                    }
                }
            }
            Message::IndirectAck { target, probe_number } if live => {
                if *target == pre.id {
                    C12_TALLY[7].fetch_add(1, Relaxed);
                    if cx.out.res != Res::Err(ErrKind::IndirectForOurselves) || sent.iter().any(|(_, q)| matches!(q.header.message, Message::ForwardedAck { .. })) {
                        return Err(viol("c12:relay-for-ourselves-accepted", "IndirectAck naming the instance itself as target was not rejected".into()));
                    }
                } else {
                    C12_TALLY[6].fetch_add(1, Relaxed);
                    let want = Message::ForwardedAck { origin: src, probe_number: *probe_number };
                    if sent.iter().filter(|(to, q)| to == target && q.header.message == want).count() != 1 {
                        return Err(viol("c12:indirectack-not-forwarded", format!("IndirectAck(target {}, {}) from {} did not produce ForwardedAck(origin {}, {}) to {}", target.show(), probe_number, src.show(), src.show(), probe_number, target.show())));
                    }
                }
            }
            Message::ForwardedAck { origin, .. } if live && *origin == pre.id => {
                C12_TALLY[7].fetch_add(1, Relaxed);
                if cx.out.res != Res::Err(ErrKind::IndirectForOurselves) {
                    return Err(viol("c12:relay-for-ourselves-accepted", "ForwardedAck naming the instance itself as origin was not rejected".into()));
                }
            }
            _ => {}
        }
    }
    Ok(())
}
