//! Independent parser of Foca's datagram grammar (written against the
//! documented wire format in `payload.rs`, not against `handle_data`), and
//! the well-formedness oracle of C07 / the destination oracle of C19.
use crate::doubles::*;
use foca::{Header, Member, Message, State};

#[derive(Clone, Debug, PartialEq, Eq)]
pub struct Parsed {
    pub header: Header<Id>,
    pub header_len: usize,
    /// `None`: no member section at all; `Some(v)`: a count followed by v
    pub updates: Option<Vec<Member<Id>>>,
    /// byte length of each encoded update, same order
    pub update_lens: Vec<usize>,
    pub items: Vec<Vec<u8>>,
}

pub fn piggybacks(m: &Message<Id>) -> bool {
    !matches!(m, Message::Announce | Message::TurnUndead | Message::Broadcast)
}
pub fn may_carry_items(m: &Message<Id>) -> bool {
    !matches!(m, Message::Announce | Message::TurnUndead)
}
pub fn is_relay(m: &Message<Id>) -> bool {
    matches!(m, Message::IndirectPing { .. } | Message::ForwardedAck { .. })
}

/// header ; [u16 count ; count members] (piggybacking kinds only) ;
/// (u16 len>=1 ; len bytes)* ; nothing else.
pub fn parse(codec: &FixCodec, bytes: &[u8]) -> Result<Parsed, String> {
    let mut cur: &[u8] = bytes;
    let header = codec.parse_header(&mut cur).map_err(|e| format!("header: {e}"))?;
    let header_len = bytes.len() - cur.len();
    let mut updates = None;
    let mut update_lens = Vec::new();
    if !may_carry_items(&header.message) {
        if !cur.is_empty() {
            return Err(format!("{} bytes after a header-only kind", cur.len()));
        }
        return Ok(Parsed { header, header_len, updates, update_lens, items: vec![] });
    }
    if piggybacks(&header.message) && !cur.is_empty() {
        if cur.len() < 2 {
            return Err("truncated update count".into());
        }
        let n = u16::from_be_bytes([cur[0], cur[1]]) as usize;
        cur = &cur[2..];
        let mut v = Vec::with_capacity(n);
        for k in 0..n {
            let before = cur.len();
            let mm = codec.parse_member(&mut cur).map_err(|e| format!("update {k} of {n}: {e}"))?;
            update_lens.push(before - cur.len());
            v.push(mm);
        }
        updates = Some(v);
    }
    let mut items = Vec::new();
    while !cur.is_empty() {
        if cur.len() < 2 {
            return Err("truncated item length".into());
        }
        let l = u16::from_be_bytes([cur[0], cur[1]]) as usize;
        cur = &cur[2..];
        if l == 0 {
            return Err("empty custom item".into());
        }
        if cur.len() < l {
            return Err(format!("item of {l} bytes but {} left", cur.len()));
        }
        items.push(cur[..l].to_vec());
        cur = &cur[l..];
    }
    Ok(Parsed { header, header_len, updates, update_lens, items })
}

/// What the sender looked like around the call that emitted a datagram.
pub struct SenderCtx<'a> {
    pub codec: &'a FixCodec,
    pub max_packet: usize,
    /// identities the sender had before / after the call
    pub ids: [Id; 2],
    /// incarnations it had before / after the call (hook cross-check)
    pub incs: [u16; 2],
    /// identities active in the sender's view before or after the call
    pub active: &'a [Id],
}

/// C07 oracle for one emitted datagram. Returns the parse on success.
pub fn check_emitted(cx: &SenderCtx<'_>, to: &Id, bytes: &[u8]) -> Result<Parsed, String> {
    if bytes.len() > cx.max_packet {
        return Err(format!("datagram of {} bytes exceeds max_packet_size {}", bytes.len(), cx.max_packet));
    }
    let p = parse(cx.codec, bytes)?;
    if !cx.ids.contains(&p.header.src) {
        return Err(format!("src {} is not the sender's identity ({} / {})", p.header.src.show(), cx.ids[0].show(), cx.ids[1].show()));
    }
    let inc_ok = cx.incs.contains(&p.header.src_incarnation) || (cx.ids[0] != cx.ids[1] && p.header.src_incarnation == 0);
    if !inc_ok {
        return Err(format!("src_incarnation {} is neither {} nor {}", p.header.src_incarnation, cx.incs[0], cx.incs[1]));
    }
    if &p.header.dst != to {
        return Err(format!("dst {} differs from the destination it was handed over for ({})", p.header.dst.show(), to.show()));
    }
    if matches!(p.header.message, Message::Feed) {
        if let Some(us) = &p.updates {
            for u in us {
                if u.state() == State::Down {
                    return Err(format!("Feed lists Down member {}", show_member(u)));
                }
                if u.id() == to {
                    return Err(format!("Feed lists its receiver {}", to.show()));
                }
                if cx.ids.contains(u.id()) {
                    return Err(format!("Feed lists its sender {}", u.id().show()));
                }
                if !cx.active.contains(u.id()) {
                    return Err(format!("Feed lists {} which the sender does not hold active", show_member(u)));
                }
            }
            let mut seen: Vec<&Id> = Vec::new();
            for u in us {
                if seen.contains(&u.id()) {
                    return Err(format!("Feed lists {} twice", u.id().show()));
                }
                seen.push(u.id());
            }
        }
    }
    Ok(p)
}

/// C19 oracle for one emitted datagram.
pub fn check_destination(own: &[Id], to: &Id, msg: &Message<Id>) -> Result<(), String> {
    if is_relay(msg) {
        return Ok(());
    }
    for o in own {
        if o.addr == to.addr {
            return Err(format!("datagram addressed to {} which bears the instance's own address ({})", to.show(), o.show()));
        }
    }
    Ok(())
}
