//! E1 checks, part two: C12 (probe evidence), C15 (update accounting),
//! C16 (custom broadcasts), C07 (grammar along explored histories).
use crate::checks_e1::*;
use crate::core::*;
use crate::doubles::*;
use crate::e1::*;
use crate::report::Report;
use crate::spec_core::*;
use foca::State;
use serde_json::json;
use std::sync::atomic::Ordering::Relaxed;

fn lim(depth: usize, seed_depth: usize, states: u64, wall: f64) -> Limits {
    Limits { max_depth: depth, seed_depth, max_states: states, max_wall_s: wall }
}

fn seed(s: &CoreSpec, build: impl Fn(&mut SeedBuilder)) -> Vec<HistStep> {
    let mut sb = SeedBuilder::new(s);
    build(&mut sb);
    sb.done()
}

// ------------------------------------------------------------------ C12 --

pub fn c12_variants(tier: &str, words: &[u32]) -> Vec<Variant> {
    let th = tier == "thorough";
    let mut out = Vec::new();
    let e0 = id(4, 0); // never a member
    for peers in 1..=3usize {
        for fanout in 1..=3usize {
            if !th && !matches!((peers, fanout), (1, 1) | (2, 1) | (3, 2) | (3, 3)) {
                continue;
            }
            let me = id(A, 1).with(Renew::Next);
            // two peers: remove_down_after shorter than probe_rtt, so a target
            // that goes Down during a round is also FORGOTTEN before it ends
            let remove_down = if peers == 2 { 30 } else { Cfg::default().remove_down };
            let cfg = Cfg { fanout, notify_down: false, remove_down, ..Cfg::default() };
            // a reconfiguration in the middle of a round must not end it
            let more_helpers = Ev::SetConfig(Box::new(Cfg { fanout: fanout + 1, ..cfg.clone() }));
            let mut s = CoreSpec::new(&format!("c12-peers{peers}-fanout{fanout}"), me, cfg);
            s.words = words.to_vec();
            s.mons.c12 = true;
            s.policy = TimerPolicy::DeadlineOrder;
            let all = [id(B, 0), id(C, 0), id(D, 0)];
            let members: Vec<Id> = all[..peers].to_vec();
            let mut srcs: Vec<(Id, u16, bool)> = members.iter().map(|m| (*m, 0, false)).collect();
            srcs[0].2 = true;
            srcs.push((e0, 0, false));
            s.alpha = Alpha {
                srcs,
                kinds: vec![Kind::Ack(0), Kind::Ack(-1), Kind::Ack(1), Kind::FwdAck(0), Kind::FwdAck(-1), Kind::FwdAck(1), Kind::Gossip, Kind::Ping],
                payload_kinds: vec![Kind::Gossip],
                payloads: vec![
                    vec![],
                    // target goes Down / refutes at a higher incarnation / is renamed
                    vec![mm(id(B, 0), 0, State::Down)],
                    vec![mm(id(B, 0), 1, State::Alive)],
                    vec![mm(id(B, 1), 0, State::Alive)],
                    vec![mm(id(C, 0), 0, State::Down)],
                ],
                applies: vec![(members.iter().map(|m| mm(*m, 0, State::Down)).collect(), true)],
                change_gens: vec![1],
                // a custom-broadcast tail the handler rejects: the call reports
                // the error, the message itself is still reacted to
                items: vec![vec![0xFF, 1]],
                api: vec![more_helpers],
                ..Alpha::default()
            };
            // relay requests, incl. the ones naming the instance itself
            s.alpha.kinds.extend([Kind::PingReq(id(C, 0)), Kind::PingReq(me), Kind::IndirectPing(id(C, 0)), Kind::IndirectPing(me), Kind::IndirectAck(id(C, 0)), Kind::IndirectAck(me)]);
            let ms = members.clone();
            s.seed_hists.push(seed(&s, |sb| {
                sb.ev(Ev::Apply(ms.iter().map(|m| al(*m)).collect(), true));
            }));
            let ms = members.clone();
            s.seed_hists.push(seed(&s, |sb| {
                sb.ev(Ev::Apply(ms.iter().map(|m| al(*m)).collect(), true));
                sb.fire(|t| matches!(t, TimerKey::ProbeRandomMember(_)));
            }));
            let ms = members.clone();
            s.seed_hists.push(seed(&s, |sb| {
                sb.ev(Ev::Apply(ms.iter().map(|m| al(*m)).collect(), true));
                sb.fire(|t| matches!(t, TimerKey::ProbeRandomMember(_)));
                sb.fire(|t| matches!(t, TimerKey::SendIndirectProbe { .. }));
            }));
            // peers that refuted earlier: their incarnation (2) differs from
            // the instance's own (0), mid-probe
            let ms = members.clone();
            s.seed_hists.push(seed(&s, |sb| {
                sb.ev(Ev::Apply(ms.iter().map(|m| mm(*m, 2, State::Alive)).collect(), true));
                sb.fire(|t| matches!(t, TimerKey::ProbeRandomMember(_)));
            }));
            // a long-lived instance: 255 completed rounds, the next round's
            // number wraps to 0 (mid-probe with number 0)
            if fanout == 1 || th {
                let ms = members.clone();
                s.seed_hists.push(seed(&s, |sb| {
                    sb.ev(Ev::Apply(ms.iter().map(|m| al(*m)).collect(), true));
                    sb.age_probe_number(255);
                    sb.fire(|t| matches!(t, TimerKey::ProbeRandomMember(_)));
                }));
            }
            let l = if th { lim(7, 7, 12_000_000, 900.0) } else { lim(4, 4, 1_500_000, 60.0) };
            out.push(Variant { spec: s, lim: l });
        }
    }
    // A Feed reply that cannot list every member it picked (tight packet,
    // five peers) right before the indirect stage: whatever a member selection
    // leaves behind must not become an indirect helper. Lean alphabet.
    for fanout in [1usize, 2] {
        let me = id(A, 1).with(Renew::Next);
        let cfg = Cfg { fanout, max_packet: 20, notify_down: false, ..Cfg::default() };
        let mut s = CoreSpec::new(&format!("c12-feed-leftover-fanout{fanout}"), me, cfg);
        let lean = crate::rng::menu(6, 0);
        s.words = if crate::rng::calibrate(&lean, 6, 0).is_ok() { lean } else { words.to_vec() };
        s.mons.c12 = true;
        s.policy = TimerPolicy::DeadlineOrder;
        let members = [id(B, 0), id(C, 0), id(D, 0), id(4, 0), id(5, 0)];
        s.alpha = Alpha {
            srcs: vec![(id(B, 0), 0, true), (id(C, 0), 0, false)],
            kinds: vec![Kind::Announce, Kind::Ack(0), Kind::FwdAck(0), Kind::Gossip],
            payload_kinds: vec![Kind::Gossip],
            payloads: vec![vec![], vec![mm(id(D, 0), 0, State::Down)]],
            ..Alpha::default()
        };
        s.seed_hists.push(seed(&s, |sb| {
            sb.ev(Ev::Apply(members.iter().map(|m| al(*m)).collect(), false));
        }));
        s.seed_hists.push(seed(&s, |sb| {
            sb.ev(Ev::Apply(members.iter().map(|m| al(*m)).collect(), false));
            sb.fire(|t| matches!(t, TimerKey::ProbeRandomMember(_)));
        }));
        let l = if th { lim(5, 5, 6_000_000, 600.0) } else { lim(3, 3, 1_000_000, 60.0) };
        out.push(Variant { spec: s, lim: l });
    }
    out
}

pub fn c12(tier: &str) -> Report {
    let mut rep = Report::new("C12", tier, "model_checking");
    let words = calibrated(&mut rep, 5, 4);
    run_variants("C12", tier, c12_variants(tier, &words), &mut rep);
    let t: Vec<u64> = crate::mon_probe::C12_TALLY.iter().map(|a| a.load(Relaxed)).collect();
    rep.set(
        "round_outcomes",
        json!({"evidence_no_suspicion": t[0], "no_evidence_suspect_plus_timer": t[1], "target_changed": t[2], "aborted": t[3], "rounds_with_pingreq": t[4], "pings_answered": t[5], "relay_hops": t[6], "relay_for_ourselves_rejected": t[7]}),
    );
    // (a run cut by the wall / memory guard reports the cut, not vacuity)
    if rep.violations.is_empty() && rep.exhaustive && t.iter().any(|x| *x == 0) {
        rep.machinery(format!("vacuous: an outcome class was never exercised: {t:?}"));
    }
    rep.assume("timers are delivered in deadline order (SendIndirectProbe before the next ProbeRandomMember); only timers Foca scheduled are delivered");
    rep
}

// ------------------------------------------------------------------ C15 --

pub fn c15_variants(tier: &str, words: &[u32]) -> Vec<Variant> {
    let th = tier == "thorough";
    let mut out = Vec::new();
    // header 9-10 bytes, update 5 bytes (fixed codec): 17 = one update fits,
    // 22 = two fit, 1400 = all fit
    for var in [false, true] {
        for (mt, packet) in [(1u8, 1400usize), (2, 17), (2, 22), (3, 1400), (3, 19)] {
            if !th && !matches!((var, mt, packet), (false, 2, 17) | (false, 3, 1400) | (true, 2, 22) | (false, 1, 1400)) {
                continue;
            }
            let me = id(A, 1).with(Renew::Next);
            let cfg = Cfg { max_tx: mt, max_packet: packet + if var { 3 } else { 0 }, fanout: 2, notify_down: true, ..Cfg::default() };
            let mut s = CoreSpec::new(&format!("c15-{}-mt{mt}-pkt{packet}", if var { "var" } else { "fix" }), me, cfg);
            s.codec = FixCodec { var, ..FixCodec::default() };
            s.words = words.to_vec();
            s.mons.c15 = true;
            s.alpha = Alpha {
                srcs: vec![(id(B, 0), 0, true), (id(C, 1), 0, false)],
                kinds: vec![Kind::Gossip, Kind::Ping, Kind::Announce],
                payload_kinds: vec![Kind::Gossip, Kind::Ping],
                payloads: vec![
                    vec![],
                    vec![mm(id(C, 1), 1, State::Alive)],
                    vec![mm(id(C, 1), 1, State::Suspect), mm(id(D, 2), 0, State::Alive)],
                    vec![mm(id(D, 2), 0, State::Down)],
                ],
                self_rel: vec![(0, State::Suspect)],
                applies: vec![
                    (vec![mm(id(C, 1), 0, State::Alive), mm(id(D, 2), 0, State::Alive)], true),
                    (vec![mm(id(C, 1), 1, State::Suspect)], true),
                    (vec![mm(id(D, 2), 1, State::Alive), mm(id(C, 2), 0, State::Alive)], false),
                ],
                api: vec![Ev::Gossip, Ev::Broadcast, Ev::Announce(id(B, 0)), Ev::Leave],
                change_gens: vec![1],
                ..Alpha::default()
            };
            s.seed_hists.push(seed(&s, |sb| {
                sb.ev(Ev::Apply(vec![al(id(B, 0)), al(id(C, 1))], true));
            }));
            s.seed_hists.push(seed(&s, |sb| {
                sb.ev(Ev::Apply(vec![al(id(B, 0)), al(id(C, 1)), al(id(D, 2))], true));
                sb.ev(Ev::Gossip);
            }));
            let l = if th { lim(6, 6, 10_000_000, 900.0) } else { lim(4, 4, 1_500_000, 60.0) };
            out.push(Variant { spec: s, lim: l });
        }
    }
    // change_identity towards a DIFFERENT address: the obituary of the old
    // identity must stay keyed by the old address (lean alphabet, own variant)
    for mt in [2u8, 3] {
        let me = id(A, 1).with(Renew::Next);
        let cfg = Cfg { max_tx: mt, max_packet: 1400, fanout: 2, notify_down: true, ..Cfg::default() };
        let mut s = CoreSpec::new(&format!("c15-move-address-mt{mt}"), me, cfg);
        s.words = words.to_vec();
        s.mons.c15 = true;
        s.alpha = Alpha {
            srcs: vec![(id(B, 0), 0, true)],
            kinds: vec![Kind::Gossip, Kind::Ping],
            payload_kinds: vec![Kind::Gossip],
            payloads: vec![vec![], vec![mm(id(A, 1), 1, State::Down)], vec![mm(id(5, 1), 0, State::Alive)], vec![mm(id(C, 1), 1, State::Alive)]],
            applies: vec![(vec![mm(id(A, 1), 0, State::Suspect)], true), (vec![mm(id(5, 1), 0, State::Down)], true)],
            api: vec![Ev::Gossip, Ev::ChangeId(id(5, 0).with(Renew::Next)), Ev::ChangeId(id(A, 3).with(Renew::Next))],
            ..Alpha::default()
        };
        s.seed_hists.push(seed(&s, |sb| {
            sb.ev(Ev::Apply(vec![al(id(B, 0)), al(id(C, 1))], true));
        }));
        let l = if th { lim(6, 6, 6_000_000, 600.0) } else { lim(4, 4, 800_000, 60.0) };
        out.push(Variant { spec: s, lim: l });
    }
    // A backlog larger than any "at least N" shortcut (seven updates), a
    // header made of LONG identities and updates about SHORT ones
    // (variable-length encoding), packets that hold five to seven updates:
    // whatever Foca estimates from the header, no update that fits is left out
    for packet in [40usize, 44, 48, 52] {
        let me = id(A, 2).with(Renew::Next);
        // fan-out 7: gossip() goes to every member, no RNG draw (a draw per
        // candidate would multiply the branches by the menu size each)
        let cfg = Cfg { max_tx: 2, max_packet: packet, fanout: 7, notify_down: false, ..Cfg::default() };
        let mut s = CoreSpec::new(&format!("c15-long-header-short-updates-pkt{packet}"), me, cfg);
        s.codec = FixCodec { var: true, ..FixCodec::default() };
        s.words = words.to_vec();
        s.mons.c15 = true;
        s.alpha = Alpha {
            srcs: vec![(id(B, 0), 0, true), (id(C, 2), 0, false)],
            kinds: vec![Kind::Ping, Kind::PingReq(id(D, 0)), Kind::IndirectPing(id(D, 0)), Kind::IndirectAck(id(D, 0))],
            payload_kinds: vec![Kind::Ping],
            payloads: vec![vec![]],
            api: vec![Ev::Gossip],
            ..Alpha::default()
        };
        s.seed_hists.push(seed(&s, |sb| {
            sb.ev(Ev::Apply(vec![al(id(B, 0)), al(id(C, 0)), al(id(D, 0)), al(id(4, 0)), al(id(5, 0)), al(id(6, 0)), al(id(7, 0))], true));
        }));
        let l = if th { lim(4, 4, 2_000_000, 300.0) } else { lim(2, 2, 300_000, 60.0) };
        out.push(Variant { spec: s, lim: l });
    }
    out
}

pub fn c15(tier: &str) -> Report {
    let mut rep = Report::new("C15", tier, "model_checking");
    let words = calibrated(&mut rep, 5, 4);
    run_variants("C15", tier, c15_variants(tier, &words), &mut rep);
    // the u8 boundary: a 255-transmission drain on the real code
    match drain_255() {
        Ok(n) => rep.set("max_transmissions_255_drain", json!({"datagrams_carrying_the_update": n})),
        Err(e) => rep.violate("c15:drain-255", e, json!({"engine": "scripted", "what": "max_transmissions=255 drain"})),
    }
    let t: Vec<u64> = crate::mon_bcast::C15_TALLY.iter().map(|a| a.load(Relaxed)).collect();
    rep.set("tally", json!({"piggybacking_datagrams_checked": t[0], "updates_carried": t[1], "omitted_entry_cases": t[2], "entries_expired_after_max_transmissions": t[3], "entries_superseded": t[4]}));
    if rep.violations.is_empty() && rep.exhaustive && t.iter().any(|x| *x == 0) {
        rep.machinery(format!("vacuous: a tally is zero: {t:?}"));
    }
    rep.assume("within one call acceptances precede sends (self-suspicion only as the last update of a batch), which makes the per-call record diff exact");
    rep
}

/// max_transmissions = 255: the update is carried by exactly 255 datagrams.
fn drain_255() -> Result<u64, String> {
    let codec = FixCodec::default();
    let cfg = Cfg { max_tx: 255, fanout: 1, ..Cfg::default() };
    let mut f = new_foca(id(A, 0), &cfg, codec, TableHandler::new(InvMode::NewerVersion));
    run_event(&mut f, &Ev::Apply(vec![al(id(B, 0))], true), &[0]);
    let mut carried = 0u64;
    for round in 0..300 {
        let o = run_event(&mut f, &Ev::Gossip, &[]);
        let mut any = false;
        for (_, d) in o.sends() {
            let p = crate::grammar::parse(&codec, d).map_err(|e| e.to_string())?;
            if p.updates.iter().flatten().any(|u| *u.id() == id(B, 0)) {
                any = true;
                carried += 1;
            }
        }
        let backlog = f.updates_backlog();
        if any && backlog == 0 && carried != 255 {
            return Err(format!("update left the backlog after {carried} transmissions with max_transmissions=255"));
        }
        if !any && round < 255 {
            return Err(format!("update no longer carried after {carried} transmissions with max_transmissions=255"));
        }
        if carried > 255 {
            return Err(format!("update carried {carried} times with max_transmissions=255"));
        }
    }
    if carried != 255 {
        return Err(format!("update carried {carried} times with max_transmissions=255"));
    }
    Ok(carried)
}

// ------------------------------------------------------------------ C16 --

pub fn c16_variants(tier: &str, words: &[u32]) -> Vec<Variant> {
    let th = tier == "thorough";
    let mut out = Vec::new();
    // header of Gossip = 7 bytes, + 2 count bytes when piggybacking
    for (mode, mask, mt, packet) in [
        (InvMode::NewerVersion, 0u8, 2u8, 1400usize),
        (InvMode::NewerVersion, 1 << C, 1, 22),
        (InvMode::EqualKey, 0, 2, 30),
        (InvMode::Never, 1 << B, 2, 20),
        (InvMode::Always, 0, 1, 1400),
        (InvMode::Generation, 0, 2, 1400),
        (InvMode::Never, (1 << B) | (1 << C), 2, 1400),
    ] {
        let me = id(A, 1).with(Renew::None);
        let cfg = Cfg { max_tx: mt, max_packet: packet, fanout: 2, ..Cfg::default() };
        let mut s = CoreSpec::new(&format!("c16-{mode:?}-mask{mask}-mt{mt}-pkt{packet}"), me, cfg);
        s.words = words.to_vec();
        s.mons.c16 = true;
        s.handler = TableHandler::new(mode);
        s.handler.deny_mask = mask;
        // sizes: 3, 9, fits-exactly / fits-minus-1 for a Gossip with no updates
        let exact = packet.saturating_sub(7 + 2 + 2).clamp(3, 40);
        let item = |k: u8, v: u8, len: usize| {
            let mut d = vec![k, v];
            d.resize(len.max(2), 0xAB);
            d
        };
        let items = vec![item(0, 1, 3), item(0, 2, 9), item(1, 1, exact), item(1, 2, exact.saturating_sub(1).max(3)), item(0, 0, 3)];
        let mut api: Vec<Ev> = items.iter().map(|i| Ev::AddBroadcast(i.clone())).collect();
        api.extend([Ev::Broadcast, Ev::Gossip, Ev::Announce(id(B, 0)), Ev::AddBroadcast(vec![]), Ev::AddBroadcast(vec![0xFF, 1])]);
        s.alpha = Alpha {
            srcs: vec![(id(B, 0), 0, true), (id(C, 0), 0, false)],
            // relay requests make the instance write to somebody it may not
            // hold as a member at all (C may be Down, or unknown): the
            // handler's predicate applies to every recipient
            kinds: vec![Kind::Gossip, Kind::Ping, Kind::Announce, Kind::Broadcast, Kind::PingReq(id(C, 0)), Kind::IndirectAck(id(C, 0))],
            payload_kinds: vec![Kind::Gossip],
            payloads: vec![vec![], vec![mm(id(C, 0), 0, State::Down)], vec![mm(id(D, 0), 0, State::Alive)]],
            items: vec![item(0, 3, 4), item(1, 1, 3), item(2, 1, 5)],
            // several items in ONE datagram, a later one invalidating an
            // earlier one / unrelated ones in between / the stale one last
            item_sets: vec![
                vec![item(2, 1, 3), item(2, 2, 4)],
                vec![item(3, 1, 3), item(1, 4, 3), item(3, 2, 3)],
                vec![item(2, 5, 3), item(2, 4, 3)],
            ],
            api,
            ..Alpha::default()
        };
        s.seed_hists.push(seed(&s, |sb| {
            sb.ev(Ev::Apply(vec![al(id(B, 0)), al(id(C, 0))], true));
        }));
        s.seed_hists.push(seed(&s, |sb| {
            sb.ev(Ev::Apply(vec![al(id(B, 0)), al(id(C, 0)), al(id(D, 0))], false));
        }));
        let l = if th { lim(6, 6, 10_000_000, 900.0) } else { lim(4, 4, 1_500_000, 60.0) };
        out.push(Variant { spec: s, lim: l });
    }
    // More members than a Feed can list in a tight packet: whatever a Feed
    // reply (or any other member selection) leaves behind in scratch buffers
    // must not leak into the next broadcast(). Lean alphabet, own variant.
    for (mask, packet) in [(1u8 << B, 20usize), (0, 22)] {
        let me = id(A, 1).with(Renew::None);
        let cfg = Cfg { max_tx: 3, max_packet: packet, fanout: 2, ..Cfg::default() };
        let mut s = CoreSpec::new(&format!("c16-feed-leftover-mask{mask}-pkt{packet}"), me, cfg);
        // up to 4 draws per call here: a menu that covers every outcome of
        // every random_range(0..n), n <= 6, but not every shuffle
        let lean = crate::rng::menu(6, 0);
        s.words = if crate::rng::calibrate(&lean, 6, 0).is_ok() { lean } else { words.to_vec() };
        s.mons.c16 = true;
        s.handler = TableHandler::new(InvMode::Never);
        s.handler.deny_mask = mask;
        let it = |k: u8, v: u8| vec![k, v, 0xAB];
        s.alpha = Alpha {
            srcs: vec![(id(B, 0), 0, true), (id(6, 0), 0, false)],
            kinds: vec![Kind::Announce, Kind::Gossip, Kind::Ping, Kind::PingReq(id(C, 0))],
            payload_kinds: vec![Kind::Gossip],
            payloads: vec![vec![], vec![mm(id(C, 0), 0, State::Down)]],
            api: vec![Ev::AddBroadcast(it(0, 1)), Ev::AddBroadcast(it(1, 1)), Ev::Broadcast, Ev::Gossip],
            ..Alpha::default()
        };
        s.seed_hists.push(seed(&s, |sb| {
            sb.ev(Ev::Apply(vec![al(id(B, 0)), al(id(C, 0)), al(id(D, 0)), al(id(4, 0)), al(id(5, 0))], false));
            sb.ev(Ev::AddBroadcast(it(2, 1)));
            sb.ev(Ev::AddBroadcast(it(3, 1)));
        }));
        let l = if th { lim(5, 5, 6_000_000, 600.0) } else { lim(3, 3, 1_000_000, 60.0) };
        out.push(Variant { spec: s, lim: l });
    }
    out
}

pub fn c16(tier: &str) -> Report {
    let mut rep = Report::new("C16", tier, "model_checking");
    let words = calibrated(&mut rep, 5, 4);
    run_variants("C16", tier, c16_variants(tier, &words), &mut rep);
    let t: Vec<u64> = crate::mon_bcast::C16_TALLY.iter().map(|a| a.load(Relaxed)).collect();
    rep.set("tally", json!({"datagrams_with_items": t[0], "items_carried": t[1], "receiver_side_checks": t[2], "broadcast_calls": t[3], "invalidations": t[4]}));
    if rep.violations.is_empty() && rep.exhaustive && t[..5].iter().any(|x| *x == 0) {
        rep.machinery(format!("vacuous: a tally is zero: {t:?}"));
    }
    rep
}

// ------------------------------------------------- C07 (E1 contribution) --

pub fn c07_variants(tier: &str, words: &[u32]) -> Vec<Variant> {
    let th = tier == "thorough";
    let mut out = Vec::new();
    // 9 (fixed) / 11 (variable ids): a two-identity header fits, a
    // three-identity one (PingReq, IndirectPing, ...) does not: header
    // encoding fails mid-way and the next datagram must still be clean
    // max_transmissions 1: broadcast() drains the backlog with its first
    // datagram and stops early (scratch buffers keep what was not used)
    for (var, packet, mt) in [(false, 1400usize, 3u8), (false, 1400, 1), (false, 21, 3), (true, 26, 3), (false, 12, 3), (false, 9, 3), (true, 11, 3)] {
        let me = id(A, 1).with(Renew::Next);
        let cfg = Cfg { max_packet: packet, max_tx: mt, fanout: 2, notify_down: true, gossip: Some((200, 2)), announce_down: Some((500, 1)), ..Cfg::default() };
        let mut s = CoreSpec::new(&format!("c07-{}-pkt{packet}-mt{mt}", if var { "var" } else { "fix" }), me, cfg);
        s.codec = FixCodec { var, ..FixCodec::default() };
        s.words = words.to_vec();
        s.mons.c07 = true;
        let mut a = Alpha {
            srcs: vec![(id(B, 0), 0, true), (id(C, 1), 0, false)],
            kinds: vec![Kind::Gossip, Kind::Ping, Kind::Announce, Kind::TurnUndead, Kind::PingReq(id(C, 1)), Kind::IndirectPing(id(C, 1)), Kind::IndirectAck(id(C, 1))],
            payload_kinds: vec![Kind::Gossip],
            payloads: vec![vec![], vec![mm(id(C, 1), 0, State::Alive), mm(id(D, 2), 0, State::Alive)], vec![mm(id(D, 2), 0, State::Down)]],
            self_rel: vec![(0, State::Suspect), (0, State::Down)],
            items: vec![vec![1, 1, 9]],
            api: vec![Ev::Gossip, Ev::Broadcast, Ev::Announce(id(B, 0)), Ev::Leave, Ev::AddBroadcast(vec![0, 1, 2, 3])],
            change_gens: vec![1],
            ..Alpha::default()
        };
        a.applies = vec![(vec![al(id(B, 0)), al(id(C, 1)), al(id(D, 2))], true)];
        s.alpha = a;
        s.seed_hists.push(seed(&s, |sb| {
            sb.ev(Ev::Apply(vec![al(id(B, 0)), al(id(C, 1)), al(id(D, 2))], true));
        }));
        let l = if th { lim(5, 5, 6_000_000, 600.0) } else if packet == 1400 { lim(4, 4, 2_500_000, 25.0) } else { lim(3, 3, 600_000, 60.0) };
        out.push(Variant { spec: s, lim: l });
    }
    // A handler that accepts anything, even an empty item, and peers that
    // send empty custom-broadcast frames in every position: whatever comes in,
    // what goes out must stay well-formed. Lean alphabet.
    {
        let me = id(A, 1).with(Renew::Next);
        let cfg = Cfg { max_packet: 1400, max_tx: 3, fanout: 2, ..Cfg::default() };
        let mut s = CoreSpec::new("c07-empty-frames", me, cfg);
        s.words = words.to_vec();
        s.mons.c07 = true;
        s.handler.accept_empty = true;
        s.alpha = Alpha {
            srcs: vec![(id(B, 0), 0, true)],
            kinds: vec![Kind::Gossip, Kind::Ping, Kind::Broadcast],
            payload_kinds: vec![Kind::Gossip],
            payloads: vec![vec![]],
            item_sets: vec![vec![vec![], vec![1, 1, 9]], vec![vec![1, 1, 9], vec![]], vec![vec![]], vec![vec![], vec![]]],
            api: vec![Ev::Gossip, Ev::Broadcast, Ev::AddBroadcast(vec![]), Ev::AddBroadcast(vec![0, 1, 2])],
            ..Alpha::default()
        };
        s.seed_hists.push(seed(&s, |sb| {
            sb.ev(Ev::Apply(vec![al(id(B, 0)), al(id(C, 1))], true));
        }));
        let l = if th { lim(5, 5, 3_000_000, 300.0) } else { lim(3, 3, 600_000, 60.0) };
        out.push(Variant { spec: s, lim: l });
    }
    out
}
