//! C14: round-robin probing — while the member set is stable with n active
//! members, every probe round pings exactly one active member (never a Down
//! one, never the instance itself) and every window of 2n-1 consecutive
//! rounds pings each active member at least once.
//!
//! Exact and unbounded in time: the product of (record order, cursor, age
//! vector) is finite, so a breadth-first search over it — driving the real
//! instance, branching on every shuffle outcome — covers all infinite stable
//! runs. Start states come from all short histories of joins, deaths,
//! forgets and probe rounds under all RNG answers.
use crate::core::*;
use crate::doubles::*;
use crate::report::Report;
use crate::rng;
use foca::{Member, Message, State};
use rayon::prelude::*;
use serde_json::json;
use std::collections::{HashSet, VecDeque};

fn fresh() -> F {
    // num_indirect_probes = 1: gossip() then picks a single recipient
    new_foca(id(0, 0), &Cfg { remove_down: 1000, fanout: 1, ..Cfg::default() }, FixCodec::default(), TableHandler::new(InvMode::NewerVersion))
}

/// All RNG-resolved runs of one event.
fn all_runs(f: &F, ev: &Ev, words: &[u32]) -> Vec<(Vec<u32>, StepOut, F)> {
    let mut res = Vec::new();
    let mut stack: Vec<Vec<u32>> = vec![vec![]];
    while let Some(script) = stack.pop() {
        let mut c = f.clone();
        let out = run_event(&mut c, ev, &script);
        if out.extra_draws > 0 && out.panic.is_none() {
            for &w in words.iter().rev() {
                let mut s = script.clone();
                s.push(w);
                stack.push(s);
            }
            continue;
        }
        res.push((script, out, c));
    }
    res
}

/// `gossip()` under the first `cap` RNG answers (depth-first over the menu).
fn gossip_runs(f: &F, words: &[u32], cap: usize) -> Vec<(Vec<u32>, StepOut, F)> {
    let mut res = Vec::new();
    let mut stack: Vec<Vec<u32>> = vec![vec![]];
    while let Some(script) = stack.pop() {
        if res.len() >= cap {
            break;
        }
        let mut c = f.clone();
        let out = run_event(&mut c, &Ev::Gossip, &script);
        if out.extra_draws > 0 && out.panic.is_none() {
            for &w in words.iter().rev() {
                let mut s = script.clone();
                s.push(w);
                stack.push(s);
            }
            continue;
        }
        res.push((script, out, c));
    }
    res
}

/// One probe round on the real instance: fire the probe timer, answer the
/// Ping with the matching Ack, let the indirect-probe timer fire. Returns for
/// every RNG outcome (pinged member, successor instance).
fn probe_round(f: &F, words: &[u32]) -> Result<Vec<(Vec<u32>, Option<Id>, F)>, String> {
    probe_round_opt(f, words, false)
}

/// `hiccup`: this round's Ping goes unanswered and its indirect-stage timer is
/// late (it never arrives before the next round): the round is cut short.
/// A round that FOLLOWS such a round reports IncompleteProbeCycle (documented
/// as recoverable) and must still ping the next member.
fn probe_round_opt(f: &F, words: &[u32], hiccup: bool) -> Result<Vec<(Vec<u32>, Option<Id>, F)>, String> {
    let snap0 = f.verif_snapshot();
    let tok = snap0.timer_token;
    let after_hiccup = snap0.probe_target.is_some() && !snap0.probe_direct_ack_ok && !snap0.probe_reached_indirect_stage;
    let mut out = Vec::new();
    for (script, o, mut c) in all_runs(f, &Ev::Timer(TimerKey::ProbeRandomMember(tok)), words) {
        if let Some(p) = o.panic {
            return Err(format!("panic in probe round: {p}"));
        }
        let tolerated = after_hiccup && o.res == Res::Err(ErrKind::IncompleteProbeCycle);
        if !o.res.is_ok() && !tolerated {
            return Err(format!("probe timer returned {:?}", o.res));
        }
        let codec = FixCodec::default();
        let pings: Vec<(Id, u8)> = o
            .sends()
            .filter_map(|(to, d)| match codec.parse_header(&d[..]) {
                Ok(h) => match h.message {
                    Message::Ping(n) => Some((*to, n)),
                    _ => None,
                },
                Err(_) => None,
            })
            .collect();
        if pings.len() > 1 {
            return Err(format!("{} Pings in one probe round", pings.len()));
        }
        // (whatever else the probe timer may send is not this property's business)
        let target = pings.first().map(|(t, _)| *t);
        if hiccup {
            out.push((script, target, c));
            continue;
        }
        if let Some((t, n)) = pings.first() {
            // the member answers: nobody ever becomes suspect
            let me = *c.identity();
            let ack = dgram(&codec, *t, 0, me, Message::Ack(*n), None, &[]);
            let a = run_event(&mut c, &Ev::Data(ack), &[]);
            let b = run_event(&mut c, &Ev::Timer(TimerKey::SendIndirectProbe { probed: *t, token: tok }), &[]);
            if a.panic.is_some() || b.panic.is_some() || !a.res.is_ok() || !b.res.is_ok() {
                return Err(format!("ack / indirect timer failed: {:?} {:?}", a.res, b.res));
            }
            if b.sends().next().is_some() {
                return Err("PingReq sent although the Ack arrived".into());
            }
        }
        out.push((script, target, c));
    }
    Ok(out)
}

#[derive(Clone, PartialEq, Eq, Hash)]
struct Key {
    members: Vec<Member<Id>>,
    cursor: usize,
    ages: Vec<(Id, u16)>,
    /// a round cut short is pending (its target, if so)
    pending: Option<Id>,
}

fn key_of(f: &F, ages: &[(Id, u16)]) -> Key {
    let s = f.verif_snapshot();
    let mut a = ages.to_vec();
    a.sort();
    let pending = if s.probe_direct_ack_ok || s.probe_reached_indirect_stage { None } else { s.probe_target.as_ref().map(|m| *m.id()) };
    Key { members: s.members, cursor: s.cursor, ages: a, pending }
}

/// Start states: all histories of <= `ops` operations.
fn start_states(max_addr: u8, max_down: usize, ops: usize, words: &[u32]) -> Result<Vec<F>, String> {
    let mut seen: HashSet<u128> = HashSet::new();
    let mut all: Vec<F> = Vec::new();
    let mut frontier = vec![fresh()];
    for _ in 0..ops {
        let mut next = Vec::new();
        for f in &frontier {
            let v = View::of(f);
            let mut succ: Vec<F> = Vec::new();
            // join the next address
            let used: Vec<u8> = v.members.iter().map(|m| m.id().addr).collect();
            if let Some(a) = (1..=max_addr).find(|a| !used.contains(a)) {
                for (_, o, c) in all_runs(f, &Ev::Apply(vec![Member::new(id(a, 0), 0, State::Alive)], true), words) {
                    if o.panic.is_some() {
                        return Err("panic while joining".into());
                    }
                    succ.push(c);
                }
            }
            // some member goes Down
            let downs = v.members.iter().filter(|m| m.state() == State::Down).count();
            if downs < max_down {
                for m in v.members.iter().filter(|m| m.state() != State::Down) {
                    // (the incarnation next to Down must not matter)
                    for inc in [0u16, 3] {
                        for (_, _, c) in all_runs(f, &Ev::Apply(vec![Member::new(*m.id(), inc, State::Down)], true), words) {
                            succ.push(c);
                        }
                    }
                }
            }
            // some member is suspected by somebody else and has not refuted yet:
            // still active, so it keeps its place in the rotation
            let suspects = v.members.iter().filter(|m| m.state() == State::Suspect).count();
            if suspects < 2 {
                for m in v.members.iter().filter(|m| m.state() == State::Alive) {
                    for (_, _, c) in all_runs(f, &Ev::Apply(vec![Member::new(*m.id(), m.incarnation(), State::Suspect)], false), words) {
                        succ.push(c);
                    }
                }
            }
            // a Down member is forgotten
            for m in v.members.iter().filter(|m| m.state() == State::Down) {
                for (_, _, c) in all_runs(f, &Ev::Timer(TimerKey::RemoveDown(*m.id())), words) {
                    succ.push(c);
                }
            }
            // one probe round
            if !v.active.is_empty() {
                for (_, _, c) in probe_round(f, words)? {
                    succ.push(c);
                }
            }
            for c in succ {
                let s = c.verif_snapshot();
                let k = hash128(&(&s.members, s.cursor, s.connection_state));
                if seen.insert(k) {
                    next.push(c.clone());
                    if !View::of(&c).active.is_empty() {
                        all.push(c);
                    }
                }
            }
        }
        frontier = next;
    }
    Ok(all)
}

struct StableResult {
    /// the search was cut by the wall budget (not a fixpoint)
    cut: bool,
    states: u64,
    transitions: u64,
    max_age: u16,
    n: usize,
    downs: usize,
}

/// BFS over the product (record order, cursor, ages) from one start state.
fn stable_phase(start: &F, words: &[u32], seen: &mut HashSet<u128>, deadline: std::time::Instant) -> Result<StableResult, String> {
    let v = View::of(start);
    let n = v.active.len();
    let downs = v.members.len() - n;
    let bound = (2 * n - 1) as u16;
    let ages0: Vec<(Id, u16)> = v.active.iter().map(|i| (*i, 0)).collect();
    let mut q: VecDeque<(F, Vec<(Id, u16)>)> = VecDeque::new();
    let mut res = StableResult { cut: false, states: 0, transitions: 0, max_age: 0, n, downs };
    if seen.insert(hash128(&key_of(start, &ages0))) {
        q.push_back((start.clone(), ages0));
        res.states += 1;
    }
    while let Some((f, ages)) = q.pop_front() {
        if res.transitions % 4096 == 0 && std::time::Instant::now() > deadline {
            res.cut = true;
            break;
        }
        let view = View::of(&f);
        // every round either completes (Ack, indirect-stage timer) or, for
        // small memberships, is cut short (Ping lost, indirect-stage timer late)
        let mut rounds = probe_round_opt(&f, words, false)?;
        if n <= 3 {
            rounds.extend(probe_round_opt(&f, words, true)?);
        }
        for (script, target, c) in rounds {
            res.transitions += 1;
            let Some(t) = target else {
                return Err(format!("a probe round pinged nobody although {} members are active: {}", n, view.show()));
            };
            if t.addr == view.id.addr {
                return Err(format!("the instance pinged itself: {}", view.show()));
            }
            if !view.is_active(&t) {
                return Err(format!("pinged {} which is not an active member: {}", t.show(), view.show()));
            }
            let mut a2 = ages.clone();
            for (m, age) in a2.iter_mut() {
                if *m == t {
                    *age = 0;
                } else {
                    *age += 1;
                    res.max_age = res.max_age.max(*age);
                    if *age >= bound {
                        return Err(format!(
                            "{} was not pinged for {} consecutive rounds with n={} active members (bound 2n-1={}); records {} cursor {} rng {:?}",
                            m.show(),
                            age,
                            n,
                            bound,
                            view.show(),
                            f.verif_snapshot().cursor,
                            script
                        ));
                    }
                }
            }
            let v2 = View::of(&c);
            if v2.active.len() != n || v2.members.len() != view.members.len() {
                return Err("the member set changed during a stable phase".into());
            }
            if seen.insert(hash128(&key_of(&c, &a2))) {
                res.states += 1;
                q.push_back((c, a2));
            }
        }
        // Between two probe rounds news about a member that stays active may
        // arrive (somebody suspected it and it refuted: incarnation 0 -> 1):
        // the member set is the same, the rotation must not notice.
        if n <= 3 {
            for m in view.members.iter().filter(|m| m.state() == State::Alive && m.incarnation() == 0) {
                for (_, o, c) in all_runs(&f, &Ev::Apply(vec![Member::new(*m.id(), 1, State::Alive)], false), words).into_iter().take(8) {
                    res.transitions += 1;
                    if o.panic.is_some() || !o.res.is_ok() {
                        return Err(format!("apply_many failed in a stable phase: {:?} {:?}", o.res, o.panic));
                    }
                    let v2 = View::of(&c);
                    if v2.active.len() != n || v2.members.len() != view.members.len() {
                        return Err("the member set changed during a stable phase (refutation)".into());
                    }
                    if seen.insert(hash128(&key_of(&c, &ages))) {
                        res.states += 1;
                        q.push_back((c, ages.clone()));
                    }
                }
            }
        }
        // Between two probe rounds the user (or a periodic task) may gossip:
        // the member set stays what it is, so the rotation must not notice.
        // Bounded to small memberships and the first 8 RNG answers per call
        // (the answers only pick the recipient).
        if n <= 3 {
            for (_, o, c) in gossip_runs(&f, words, 8) {
                res.transitions += 1;
                if o.panic.is_some() || !o.res.is_ok() {
                    return Err(format!("gossip() failed in a stable phase: {:?} {:?}", o.res, o.panic));
                }
                let v2 = View::of(&c);
                if v2.active.len() != n || v2.members.len() != view.members.len() {
                    return Err("the member set changed during a stable phase (gossip)".into());
                }
                if seen.insert(hash128(&key_of(&c, &ages))) {
                    res.states += 1;
                    q.push_back((c, ages.clone()));
                }
            }
        }
    }
    Ok(res)
}

pub fn c14(tier: &str) -> Report {
    let th = tier == "thorough";
    let mut rep = Report::new("C14", tier, "model_checking");
    let (max_addr, max_down, ops) = if th { (6u8, 3usize, 7usize) } else { (5, 2, 6) };
    let l = max_addr as usize; // records never exceed the number of addresses
    let words = rng::menu(l + 1, l);
    match rng::calibrate(&words, l + 1, l) {
        Ok(s) => rep.set("rng_calibration", json!(s)),
        Err(e) => rep.machinery(format!("RNG menu calibration failed: {e}")),
    }
    let starts = match start_states(max_addr, max_down, ops, &words) {
        Ok(s) => s,
        Err(e) => {
            rep.violate("c14:prefix", e, json!({"engine": "e3-c14"}));
            vec![]
        }
    };
    rep.set("start_states", json!(starts.len()));
    // group results per (n, downs)
    // simplest shapes first; a wall budget bounds the run (start states not
    // reached within it are counted and reported, never called covered)
    let mut starts = starts;
    starts.sort_by_key(|f| {
        let v = View::of(f);
        (v.members.len(), v.active.len())
    });
    let budget_s: f64 = if th { 900.0 } else { 40.0 };
    let t0 = std::time::Instant::now();
    let skipped = std::sync::atomic::AtomicU64::new(0);
    let chunks: Vec<Result<Vec<StableResult>, String>> = starts
        .par_chunks(4.max(starts.len() / 512))
        .map(|chunk| {
            let mut seen = HashSet::new();
            let mut v = Vec::new();
            for s in chunk {
                if t0.elapsed().as_secs_f64() > budget_s || crate::e1::rss_gb() > 14.0 {
                    skipped.fetch_add(1, std::sync::atomic::Ordering::Relaxed);
                    continue;
                }
                let r = stable_phase(s, &words, &mut seen, t0 + std::time::Duration::from_secs_f64(budget_s * 1.2))?;
                if r.cut {
                    skipped.fetch_add(1, std::sync::atomic::Ordering::Relaxed);
                }
                v.push(r);
            }
            Ok(v)
        })
        .collect();
    let skipped = skipped.load(std::sync::atomic::Ordering::Relaxed);
    rep.set("start_states_not_explored_within_the_wall_budget", json!(skipped));
    let mut table: std::collections::BTreeMap<(usize, usize), (u64, u64, u16, u64)> = Default::default();
    for c in chunks {
        match c {
            Ok(v) => {
                for r in v {
                    let e = table.entry((r.n, r.downs)).or_default();
                    e.0 += r.states;
                    e.1 += r.transitions;
                    e.2 = e.2.max(r.max_age);
                    e.3 += 1;
                    rep.states += r.states;
                    rep.transitions += r.transitions;
                }
            }
            Err(e) => {
                let sig = if e.contains("not pinged for") {
                    "c14:window-exceeded"
                } else if e.contains("pinged itself") || e.contains("not an active member") {
                    "c14:bad-target"
                } else {
                    "c14:round-malformed"
                };
                rep.violate(sig, e, json!({"engine": "e3-c14"}));
            }
        }
    }
    let rows: Vec<_> = table
        .iter()
        .map(|((n, d), (s, t, a, k))| json!({"active_members": n, "down_records": d, "start_states": k, "product_states": s, "rounds_executed": t, "max_rounds_without_ping_observed": a, "bound_2n_minus_1": 2 * n - 1}))
        .collect();
    for ((n, _), (_, _, a, _)) in &table {
        if *n >= 2 && rep.violations.is_empty() && (*a as usize) > 2 * n - 2 {
            rep.machinery("internal: observed age exceeds the bound without a violation".into());
        }
    }
    if rep.violations.is_empty() && !table.keys().any(|(n, d)| *n >= 3 && *d >= 1) {
        rep.machinery("vacuous: no start state with >=3 active members and a Down record".into());
    }
    rep.set("per_membership_shape", json!(rows));
    rep.distinct_nontrivial = rep.states;
    rep.exhaustive = skipped == 0;
    rep.rule = "start states: all histories of <= k operations (join, member down, member suspected by others, forget, probe round) under all RNG answers; stable phase: breadth-first search to FIXPOINT over (record order, cursor, rounds-since-pinged per member), one transition = one real probe round, every shuffle outcome a branch".into();
    rep.sample(json!({"stable_run": "3 active + 1 Down record, cursor past the end: shuffle (24 outcomes), ping the first active record, ..."}));
    rep.assume("the choice of the next member depends only on (record order, record states, cursor, RNG): the product state omits probe number and backlog");
    rep.assume("stable phase = every Ping is answered by the matching Ack, so nobody becomes Suspect/Down during it (members that were Suspect at its start stay Suspect: their Ack carries the suspected incarnation)");
    rep
}
