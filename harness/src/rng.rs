//! Owning Foca's randomness: a scripted generator whose every draw is a
//! choice point of the explorer, and a word menu that provably (calibration
//! self-test against the real `rand`) produces every outcome of every
//! `random_range`, `choose` and `shuffle` Foca can perform within a check's
//! membership bound.
use rand::seq::SliceRandom;
use rand::{Rng, RngCore};

/// Stateless scripted RNG. Each `next_u32` consumes the next script word;
/// past the end it answers `default` and counts the draw.
#[derive(Clone, Debug, Default)]
pub struct ChoiceRng {
    pub script: Vec<u32>,
    pub pos: usize,
    pub default: u32,
    /// draws that happened beyond the end of the script
    pub extra: usize,
    /// set if anything other than next_u32 was used (menu assumption broken)
    pub wide: bool,
}

impl ChoiceRng {
    pub fn new() -> Self {
        Self::default()
    }
    pub fn load(&mut self, script: &[u32]) {
        self.script.clear();
        self.script.extend_from_slice(script);
        self.pos = 0;
        self.extra = 0;
    }
    pub fn draws(&self) -> usize {
        self.pos + self.extra
    }
    /// Leave nothing behind: the generator is stateless between steps.
    pub fn reset(&mut self) {
        self.script.clear();
        self.pos = 0;
        self.extra = 0;
    }
}

impl RngCore for ChoiceRng {
    fn next_u32(&mut self) -> u32 {
        if self.pos < self.script.len() {
            let w = self.script[self.pos];
            self.pos += 1;
            w
        } else {
            self.extra += 1;
            self.default
        }
    }
    fn next_u64(&mut self) -> u64 {
        self.wide = true;
        let lo = self.next_u32() as u64;
        let hi = self.next_u32() as u64;
        (hi << 32) | lo
    }
    fn fill_bytes(&mut self, dst: &mut [u8]) {
        self.wide = true;
        for chunk in dst.chunks_mut(4) {
            let w = self.next_u32().to_le_bytes();
            chunk.copy_from_slice(&w[..chunk.len()]);
        }
    }
}

const FACT12: u64 = 479_001_600;

fn fact(n: usize) -> u64 {
    (1..=n as u64).product()
}

/// The word menu for memberships of at most `g` candidates per
/// `random_range` and at most `lmax` records per shuffle.
pub fn menu(g: usize, lmax: usize) -> Vec<u32> {
    let mut words: Vec<u32> = Vec::new();
    // word 0 first: the default schedule
    words.push(0);
    for j in 0..g as u64 {
        // centre of the j-th of g equal slices of [0, 2^32)
        let x = ((2 * j + 1) << 31).div_ceil(g as u64);
        words.push(x.min(u32::MAX as u64) as u32);
    }
    for c in 0..fact(lmax) {
        // centre of the slice that rand maps to chunk value c in [0, 12!)
        let x = (((2 * c + 1) as u128) << 31).div_ceil(FACT12 as u128) as u64;
        words.push(x.min(u32::MAX as u64) as u32);
    }
    words.sort_unstable();
    words.dedup();
    words
}

/// Calibration: with the real `rand`, the menu yields every outcome of
/// `random_range(0..n)` for `n <= g`, and every permutation of `L <= lmax`
/// items under `shuffle`, each with exactly one 32-bit draw.
pub fn calibrate(words: &[u32], g: usize, lmax: usize) -> Result<String, String> {
    for n in 1..=g {
        let mut seen = vec![false; n];
        for &w in words {
            let mut r = ChoiceRng::new();
            r.load(&[w]);
            let v = r.random_range(0..n);
            if n > 1 && (r.pos != 1 || r.extra != 0 || r.wide) {
                return Err(format!("random_range(0..{n}) with word {w} consumed {} draws (wide={})", r.draws(), r.wide));
            }
            seen[v] = true;
            // IteratorRandom::choose on a range, as used by Members::apply
            let mut r2 = ChoiceRng::new();
            r2.load(&[w]);
            let c = rand::seq::IteratorRandom::choose(0..n, &mut r2);
            if c != Some(v) {
                return Err(format!("(0..{n}).choose() != random_range for word {w}: {c:?} vs {v}"));
            }
        }
        if seen.iter().any(|s| !s) {
            return Err(format!("menu does not cover random_range(0..{n})"));
        }
    }
    for l in 0..=lmax {
        let mut perms = std::collections::BTreeSet::new();
        for &w in words {
            let mut v: Vec<u8> = (0..l as u8).collect();
            let mut r = ChoiceRng::new();
            r.load(&[w]);
            v.shuffle(&mut r);
            if r.extra != 0 || r.wide || r.pos > 1 {
                return Err(format!("shuffle of {l} with word {w} consumed {} draws", r.draws()));
            }
            perms.insert(v);
        }
        if perms.len() as u64 != fact(l) {
            return Err(format!("menu yields {} of {} permutations of {l} items", perms.len(), fact(l)));
        }
    }
    Ok(format!(
        "menu of {} words covers random_range(0..n) for n<={g} and all permutations of <={lmax} items (checked against rand)",
        words.len()
    ))
}

#[cfg(test)]
mod tests {
    use super::*;
    #[test]
    fn calibration_holds() {
        for (g, l) in [(2, 2), (4, 3), (5, 4), (7, 5)] {
            let m = menu(g, l);
            calibrate(&m, g, l).unwrap();
        }
    }
}
