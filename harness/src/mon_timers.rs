//! Monitors for C11 (suspicion timeout) and C13 (timer epochs).
use crate::core::*;
use crate::doubles::*;
use crate::e1::{viol, Node, StepCtx, Viol};
use crate::grammar;
use crate::refmodel::*;
use foca::{Identity, Member, Message, OwnedNotification as N, State};
use std::collections::BTreeMap;

/// Number of epoch-ending events a call's notifications / kind imply.
fn epoch_bumps(ev: &Ev, out: &StepOut, pre_id: &Id, post_id: &Id) -> u8 {
    let mut n = 0u8;
    if matches!(ev, Ev::ChangeId(_) | Ev::Reuse) && out.res.is_ok() {
        n += 1;
    }
    for x in out.notes() {
        if matches!(x, N::Idle | N::Defunct | N::Rejoin(_)) {
            n += 1;
        }
    }
    if n == 0 && pre_id != post_id {
        n = 1;
    }
    n
}

// ---------------------------------------------------------------- C11 ----

#[derive(Clone, Debug, PartialEq, Eq, Hash, Default)]
pub struct C11State {
    pub epoch: u8,
    /// suspicion timers Foca scheduled, with the epoch they were issued in
    /// (kept after delivery so duplicates can be delivered)
    pub issued: BTreeMap<TimerKey, u8>,
    /// how often each case-table row was exercised is counted globally
    /// (see `C11_ROWS`), not per state
    _pad: (),
}

pub static C11_ROWS: [std::sync::atomic::AtomicU64; 4] = [
    std::sync::atomic::AtomicU64::new(0),
    std::sync::atomic::AtomicU64::new(0),
    std::sync::atomic::AtomicU64::new(0),
    std::sync::atomic::AtomicU64::new(0),
];

pub fn c11_step(cx: &StepCtx<'_, impl Sized>, _info: &InputInfo, st: &mut C11State, codec: &FixCodec, cfg: &Cfg, _conn_pre: Conn) -> Result<(), Viol> {
    use std::sync::atomic::Ordering::Relaxed;
    let pre = cx.pre_view;
    let post = cx.post_view;
    // --- Down is final until forgotten -------------------------------
    for old in pre.members.iter().filter(|m| m.state() == State::Down) {
        match post.record_at(old.id().addr) {
            None => {
                let ok = matches!(cx.ev, Ev::Timer(TimerKey::RemoveDown(i)) if i == old.id());
                if !ok {
                    return Err(viol("c11:down-record-removed", format!("Down record {} removed without its forget-timer", show_member(old))));
                }
            }
            Some(new) if new.id() == old.id() => {
                if new.state() != State::Down {
                    return Err(viol("c11:down-became-active", format!("Down member {} became {}", show_member(old), show_member(new))));
                }
            }
            Some(new) => {
                if !new.id().win_addr_conflict(old.id()) {
                    return Err(viol("c11:down-replaced-by-loser", format!("Down record {} replaced by {}", show_member(old), show_member(new))));
                }
            }
        }
    }
    // --- every identity that becomes Down gets its own forget-timer -------
    // (whatever the route: timeout, gossip, apply_many, a rename of a record
    // that was Down already: forget-timers match by identity)
    if cx.out.panic.is_none() {
        for new in post.members.iter().filter(|m| m.state() == State::Down) {
            let had = pre.members.iter().any(|m| m.id() == new.id() && m.state() == State::Down);
            if !had {
                let n = cx.out.timers().filter(|(after, k)| *k == TimerKey::RemoveDown(*new.id()) && after.as_millis() as u64 == cfg.remove_down).count();
                if n != 1 {
                    return Err(viol(
                        "c11:down-without-forget-timer",
                        format!("{} became a Down record in this call but {} RemoveDown({}) timers (after {}ms) were scheduled; timers: {:?}", show_member(new), n, new.id().show(), cfg.remove_down, cx.out.timers().collect::<Vec<_>>()),
                    ));
                }
            }
        }
    }
    if let Ev::Timer(TimerKey::RemoveDown(i)) = cx.ev {
        // the forget-timer removes exactly that identity, and only if Down
        for old in &pre.members {
            let gone = post.record_at(old.id().addr).is_none();
            if gone && (old.id() != i || old.state() != State::Down) {
                return Err(viol("c11:forget-removed-wrong-record", format!("RemoveDown({}) removed {}", i.show(), show_member(old))));
            }
        }
        if let Some(r) = pre.record_of(i) {
            if r.state() == State::Down && post.record_of(i).is_some() {
                return Err(viol("c11:forget-timer-ignored", format!("RemoveDown({}) left the Down record in place", i.show())));
            }
        }
    }
    // --- the timeout itself --------------------------------------------
    if let Ev::Timer(t @ TimerKey::ChangeSuspectToDown { member, inc, .. }) = cx.ev {
        let issue_epoch = st.issued.get(t).copied();
        let current = issue_epoch == Some(st.epoch);
        let rec = pre.record_at(member.addr);
        let same = rec.is_some_and(|r| r.id() == member && r.incarnation() == *inc);
        let rec_down = rec.is_some_and(|r| r.state() == State::Down);
        let snap_same = obs_snapshot(&cx.pre.f) == obs_snapshot(cx.post);
        if current && same && !rec_down {
            C11_ROWS[0].fetch_add(1, Relaxed);
            // takes effect
            let r = post.record_of(member);
            if !r.is_some_and(|r| r.state() == State::Down) {
                return Err(viol("c11:timeout-not-applied", format!("unrefuted suspicion of {} timed out but the record is {:?}", member.show(), r.map(show_member))));
            }
            if !cx.out.has_note(&N::MemberDown(*member)) {
                return Err(viol("c11:timeout-no-memberdown", format!("{} went Down by timeout without MemberDown", member.show())));
            }
            let forget: Vec<_> = cx.out.timers().filter(|(_, k)| *k == TimerKey::RemoveDown(*member)).collect();
            if forget.len() != 1 || forget[0].0.as_millis() as u64 != cfg.remove_down {
                return Err(viol("c11:timeout-no-forget-timer", format!("expected exactly one RemoveDown({}) after {}ms, got {:?}", member.show(), cfg.remove_down, forget)));
            }
            let tu: Vec<_> = cx
                .out
                .sends()
                .filter(|(to, d)| *to == member && codec.parse_header(&d[..]).is_ok_and(|h| matches!(h.message, Message::TurnUndead)))
                .collect();
            if cfg.notify_down && tu.len() != 1 {
                return Err(viol("c11:timeout-turnundead-missing", format!("notify_down_members is on but {} TurnUndead datagrams were sent to {}", tu.len(), member.show())));
            }
            if !cfg.notify_down && !tu.is_empty() {
                return Err(viol("c11:timeout-turnundead-unwanted", "TurnUndead sent although notify_down_members is off".into()));
            }
            // gossips the Down update: it is in the next piggybacked datagram
            let mut c = cx.post.clone();
            if post.active.is_empty() {
                let _ = run_event(&mut c, &Ev::Apply(vec![Member::new(id(9, 0), 0, State::Alive)], false), &[]);
            }
            let o = run_event(&mut c, &Ev::Gossip, &[]);
            let mut found = false;
            for (_, d) in o.sends() {
                if let Ok(p) = grammar::parse(codec, d) {
                    if p.updates.iter().flatten().any(|u| u.id() == member && u.state() == State::Down) {
                        found = true;
                    }
                }
            }
            if !found {
                return Err(viol("c11:timeout-not-gossiped", format!("Down({}) is not in the next gossip datagram", member.show())));
            }
        } else if current && same && rec_down {
            // already Down at that incarnation: neither cancelled nor effective
            C11_ROWS[3].fetch_add(1, Relaxed);
            if post.members != pre.members || cx.out.notes().next().is_some() {
                return Err(viol("c11:timeout-on-down-changed-state", format!("timeout for already-Down {} changed state or notified", member.show())));
            }
        } else {
            C11_ROWS[if current { 1 } else { 2 }].fetch_add(1, Relaxed);
            // cancelled or stale: no effect at all
            if !cx.out.effects.is_empty() || !snap_same || post != pre || !cx.out.res.is_ok() {
                let why = if !current {
                    "stale epoch".to_string()
                } else {
                    format!("record is {:?}", rec.map(show_member))
                };
                let what = cx.out.effects.iter().map(|e| show_effect(codec, e)).collect::<Vec<_>>().join("; ");
                let sig = if cx.out.effects.iter().any(|e| matches!(e, Effect::Send { .. })) && post.members == pre.members {
                    "c11:cancelled-timeout-sent-datagram"
                } else if post.members != pre.members {
                    "c11:cancelled-timeout-changed-state"
                } else {
                    "c11:cancelled-timeout-had-effect"
                };
                return Err(viol(
                    sig,
                    format!("cancelled/stale ChangeSuspectToDown({}, inc {}) [{}] had an effect: result {:?}; effects [{}]; state {} -> {}", member.show(), inc, why, cx.out.res, what, pre.show(), post.show()),
                ));
            }
        }
    }
    // --- bookkeeping ----------------------------------------------------
    for (_, k) in cx.out.timers() {
        if matches!(k, TimerKey::ChangeSuspectToDown { .. }) {
            st.issued.insert(k, st.epoch);
        }
    }
    st.epoch = st.epoch.wrapping_add(epoch_bumps(cx.ev, cx.out, &pre.id, &post.id));
    // forget entries that can never matter again (keeps the state space finite)
    if st.issued.len() > 6 {
        let k = *st.issued.keys().next().unwrap();
        st.issued.remove(&k);
    }
    Ok(())
}

// ---------------------------------------------------------------- C13 ----

#[derive(Clone, Debug, PartialEq, Eq, Hash, Default)]
pub struct C13State {
    pub epoch: u8,
    /// epoch in which each outstanding (token-carrying) timer was issued
    pub issued: BTreeMap<TimerKey, u8>,
}

pub fn c13_step(cx: &StepCtx<'_, impl Sized>, st: &mut C13State, conn_pre: Conn, deadline_order: bool) -> Result<(), Viol> {
    let pre = cx.pre_view;
    let post = cx.post_view;
    if let Ev::Timer(t) = cx.ev {
        if cx.timer_was_outstanding && !matches!(t, TimerKey::RemoveDown(_)) {
            let stale = st.issued.get(t).is_some_and(|e| *e != st.epoch);
            if stale {
                let snap_same = obs_snapshot(&cx.pre.f) == obs_snapshot(cx.post);
                if !cx.out.effects.is_empty() || !snap_same || !cx.out.res.is_ok() {
                    return Err(viol(
                        "c13:stale-timer-had-effect",
                        format!("timer {} issued before the latest Idle/Defunct/identity change had an effect: {:?} {:?}", t.show(), cx.out.res, cx.out.effects),
                    ));
                }
            }
        }
        if cx.timer_was_outstanding {
            match cx.out.res {
                Res::Ok | Res::OkBool(_) => {}
                Res::Err(ErrKind::IncompleteProbeCycle) if !deadline_order => {}
                Res::Err(ErrKind::IncompleteProbeCycle) => {
                    return Err(viol("c13:incomplete-probe-cycle", format!("handle_timer({}) returned IncompleteProbeCycle", t.show())));
                }
                Res::Err(e) => {
                    return Err(viol("c13:handle-timer-error", format!("handle_timer({}) returned {:?} (instance was {:?})", t.show(), e, conn_pre)));
                }
            }
        }
    }
    for (_, k) in cx.out.timers() {
        if !matches!(k, TimerKey::RemoveDown(_)) {
            st.issued.insert(k, st.epoch);
        }
    }
    // timers issued in this call before an epoch change in the same call
    // would be mis-dated; Foca never does that (checked: a timer issued in a
    // call that also ended the epoch must come after the change)
    let bumps = epoch_bumps(cx.ev, cx.out, &pre.id, &post.id);
    if bumps > 0 {
        let mut after_change = false;
        let mut issued_before = Vec::new();
        let reset_first = matches!(cx.ev, Ev::ChangeId(_) | Ev::Reuse);
        if reset_first {
            after_change = true;
        }
        for e in &cx.out.effects {
            match e {
                Effect::Note(N::Idle | N::Defunct | N::Rejoin(_)) => after_change = true,
                Effect::Timer { timer, .. } if !after_change => issued_before.push(TimerKey::from(timer)),
                _ => {}
            }
        }
        let new_epoch = st.epoch.wrapping_add(bumps);
        for (_, k) in cx.out.timers() {
            if !matches!(k, TimerKey::RemoveDown(_)) && !issued_before.contains(&k) {
                st.issued.insert(k, new_epoch);
            }
        }
        st.epoch = new_epoch;
    }
    // drop entries for timers that are no longer outstanding
    let outstanding: Vec<TimerKey> = cx.post_timers.iter().map(|(_, k)| *k).collect();
    st.issued.retain(|k, _| outstanding.contains(k));
    Ok(())
}

fn task_of(t: &TimerKey) -> Option<usize> {
    match t {
        TimerKey::ProbeRandomMember(_) => Some(0),
        TimerKey::PeriodicAnnounce(_) => Some(1),
        TimerKey::PeriodicAnnounceDown(_) => Some(2),
        TimerKey::PeriodicGossip(_) => Some(3),
        _ => None,
    }
}
const TASK_NAMES: [&str; 4] = ["ProbeRandomMember", "PeriodicAnnounce", "PeriodicAnnounceDown", "PeriodicGossip"];

/// State invariant: exactly one effective timer per recurring loop while
/// active, none while not active. "Effective" is behavioural: delivering the
/// timer to a clone produces an effect or changes the state.
pub fn c13_state(node: &Node<crate::spec_core::CoreMon>, _view: &View, cfg: &Cfg) -> Result<(), Viol> {
    let conn = node.mon.conn;
    let snap = node.f.verif_snapshot();
    // hook cross-check of the inferred connection state
    let hook_conn = match snap.connection_state {
        1 => Conn::Active,
        2 => Conn::Defunct,
        _ => Conn::Idle,
    };
    if hook_conn != conn {
        return Err(viol("c13:inferred-connection-state-differs", format!("notifications imply {:?} but the instance is {:?}", conn, hook_conn)));
    }
    let mut effective = [0usize; 4];
    let mut other_effective: Vec<TimerKey> = Vec::new();
    for (_, t) in &node.timers {
        if matches!(t, TimerKey::RemoveDown(_)) {
            continue;
        }
        let mut c = node.f.clone();
        let out = run_event(&mut c, &Ev::Timer(*t), &[]);
        let eff = !out.effects.is_empty() || obs_snapshot(&c) != obs_snapshot(&node.f) || out.panic.is_some();
        if eff {
            match task_of(t) {
                Some(k) => effective[k] += 1,
                None => other_effective.push(*t),
            }
        }
    }
    let enabled = [true, cfg.announce.is_some(), cfg.announce_down.is_some(), cfg.gossip.is_some()];
    if conn == Conn::Active {
        for k in 0..4 {
            let want = usize::from(enabled[k]);
            if effective[k] != want {
                let sig = if effective[k] > want { "c13:duplicated-loop" } else { "c13:lost-loop" };
                return Err(viol(
                    &format!("{sig}:{}", TASK_NAMES[k]),
                    format!("active instance has {} effective {} timers outstanding (expected {}); outstanding: {:?}", effective[k], TASK_NAMES[k], want, node.timers.iter().map(|(_, t)| t.show()).collect::<Vec<_>>()),
                ));
            }
        }
    } else {
        for k in 0..4 {
            if effective[k] != 0 {
                return Err(viol(
                    &format!("c13:resurrected-loop:{}", TASK_NAMES[k]),
                    format!("instance is {:?} but {} effective {} timers are outstanding: {:?}", conn, effective[k], TASK_NAMES[k], node.timers.iter().map(|(_, t)| t.show()).collect::<Vec<_>>()),
                ));
            }
        }
        if let Some(t) = other_effective.first() {
            return Err(viol("c13:effective-timer-while-inactive", format!("instance is {:?} but outstanding {} is still effective", conn, t.show())));
        }
    }
    Ok(())
}
