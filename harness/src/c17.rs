//! C17: deterministic, and rejected input leaves no trace.
//!
//! A base exploration (E1) enumerates reachable states. In EVERY reachable
//! state, EVERY rejected input of each class is tried: it must return its
//! documented result with an empty effect log and no RNG draw, leave the
//! (non-scratch) state untouched, and — the behavioural oracle — every
//! continuation of the base alphabet must yield identical effects and
//! results with and without the rejected input in front of it.
use crate::checks_e1::*;
use crate::core::*;
use crate::doubles::*;
use crate::e1::*;
use crate::report::Report;
use crate::spec_core::*;
use foca::{Message, State};
use serde_json::json;
use std::sync::atomic::{AtomicU64, Ordering::Relaxed};

pub const CLASSES: [&str; 17] = [
    "oversized-buffer",
    "header-truncated",
    "bad-kind-byte",
    "member-list-truncated",
    "bad-state-byte",
    "count-exceeds-members",
    "src-own-identity",
    "src-own-address-other-generation",
    "one-trailing-byte",
    "announce-with-payload",
    "wrong-destination",
    "stale-token-timer",
    "reuse-when-not-defunct",
    "change-identity-to-current",
    "invalid-set-config",
    "add-broadcast-empty",
    "add-broadcast-oversized",
];

pub static C17_CLASS_TALLY: [AtomicU64; 17] = [const { AtomicU64::new(0) }; 17];
pub static C17_CONT: AtomicU64 = AtomicU64::new(0);
pub static C17_REBUILT: AtomicU64 = AtomicU64::new(0);

pub struct C17Spec {
    pub base: CoreSpec,
    pub cont_depth: usize,
    pub pairs: bool,
}

fn rejected_inputs(spec: &CoreSpec, f: &F, view: &View) -> Vec<(usize, Ev, Res)> {
    let codec = spec.codec;
    let cfg = spec.cfg_of(f);
    let me = view.id;
    let snap = f.verif_snapshot();
    let tok = snap.timer_token;
    let b = id(B, 0);
    let c = id(C, 0);
    let mut v: Vec<(usize, Ev, Res)> = Vec::new();
    let ups = [mm(c, 1, State::Alive), mm(id(D, 0), 0, State::Suspect)];
    let good = dgram(&codec, b, 0, me, Message::Gossip, Some(&ups), &[]);
    let hl = codec.header_bytes(&foca::Header { src: b, src_incarnation: 0, dst: me, message: Message::Gossip }).len();
    // 0 oversized
    let mut big = good.clone();
    big.resize(cfg.max_packet + 1, 0);
    v.push((0, Ev::Data(big), Res::Err(ErrKind::DataTooBig)));
    // 1 header truncated at every byte
    for k in 0..hl {
        v.push((1, Ev::Data(good[..k].to_vec()), Res::Err(ErrKind::Decode)));
    }
    // 2 bad kind byte
    let mut bad = good.clone();
    bad[hl - 1] = 0x7f;
    v.push((2, Ev::Data(bad), Res::Err(ErrKind::Decode)));
    // 3 member list truncated at every byte (after the count)
    for k in hl + 2..good.len() {
        v.push((3, Ev::Data(good[..k].to_vec()), Res::Err(ErrKind::Decode)));
    }
    // 4 bad state byte (second member, so the first one decodes fine)
    let mut bad = good.clone();
    let l = bad.len();
    bad[l - 1] = 9;
    v.push((4, Ev::Data(bad), Res::Err(ErrKind::Decode)));
    // 5 count larger than members present
    let mut bad = good.clone();
    bad[hl + 1] = 3;
    v.push((5, Ev::Data(bad), Res::Err(ErrKind::Decode)));
    // 6 / 7 claims to be us
    v.push((6, Ev::Data(dgram(&codec, me, 0, me, Message::Gossip, Some(&ups), &[])), Res::Err(ErrKind::DataFromOurselves)));
    for g in [me.gen.wrapping_add(1), me.gen.wrapping_sub(1)] {
        let other = Id { gen: g, ..me };
        v.push((7, Ev::Data(dgram(&codec, other, 0, me, Message::Ping(1), Some(&ups), &[])), Res::Err(ErrKind::DataFromOurselves)));
    }
    // 8 one trailing byte
    for msg in [Message::Gossip, Message::Ping(3), Message::TurnUndead] {
        let mut d = dgram(&codec, b, 0, me, msg, None, &[]);
        d.push(0);
        v.push((8, Ev::Data(d), Res::Err(ErrKind::MalformedPacket)));
    }
    // ... for every other kind too, and with a header that carries news about
    // its sender (a higher incarnation, a sender never heard of): rejected
    // means the header teaches nothing either
    for (src, inc) in [(b, 5u16), (id(D, 3), 0)] {
        for msg in [
            Message::Gossip,
            Message::Broadcast,
            Message::Feed,
            Message::Ack(3),
            Message::PingReq { target: c, probe_number: 3 },
            Message::IndirectPing { origin: c, probe_number: 3 },
            Message::IndirectAck { target: c, probe_number: 3 },
            Message::ForwardedAck { origin: c, probe_number: 3 },
        ] {
            let mut d = dgram(&codec, src, inc, me, msg, None, &[]);
            d.push(0);
            v.push((8, Ev::Data(d), Res::Err(ErrKind::MalformedPacket)));
        }
    }
    // 9 Announce with payload
    let mut d = dgram(&codec, b, 0, me, Message::Announce, None, &[]);
    d.extend_from_slice(&[0, 1, C, 0, 0, 0, 0]);
    v.push((9, Ev::Data(d), Res::Err(ErrKind::MalformedPacket)));
    // 10 not addressed to us: silently ignored
    for dst in [Id { gen: me.gen.wrapping_add(1), ..me }, Id { gen: me.gen.wrapping_sub(1), ..me }, c, id(D, 3)] {
        v.push((10, Ev::Data(dgram(&codec, b, 1, dst, Message::Gossip, Some(&ups), &[])), Res::Ok));
        v.push((10, Ev::Data(dgram(&codec, b, 1, dst, Message::TurnUndead, None, &[])), Res::Ok));
    }
    for dst in [c, id(D, 3)] {
        v.push((10, Ev::Data(dgram(&codec, b, 1, dst, Message::Announce, None, &[])), Res::Ok));
    }
    // 11 stale-epoch timers
    for t in [tok.wrapping_add(1), tok.wrapping_sub(1), tok.wrapping_add(100)] {
        for k in [
            TimerKey::ProbeRandomMember(t),
            TimerKey::SendIndirectProbe { probed: b, token: t },
            TimerKey::ChangeSuspectToDown { member: b, inc: 0, token: t },
            TimerKey::ChangeSuspectToDown { member: c, inc: 1, token: t },
            TimerKey::PeriodicAnnounce(t),
            TimerKey::PeriodicGossip(t),
            TimerKey::PeriodicAnnounceDown(t),
        ] {
            v.push((11, Ev::Timer(k), Res::Ok));
        }
    }
    // 12 reuse while not defunct
    if snap.connection_state != 2 {
        v.push((12, Ev::Reuse, Res::Err(ErrKind::NotUndead)));
    }
    // 13 change to the same identity
    v.push((13, Ev::ChangeId(me), Res::Err(ErrKind::SameIdentity)));
    // ... and to an EQUAL identity that differs in a field equality ignores
    // (here: whether and how it can renew itself): nothing of the rejected
    // value may be kept
    for pol in [Renew::None, Renew::Next, Renew::Same] {
        if pol != me.pol {
            v.push((13, Ev::ChangeId(me.with(pol)), Res::Err(ErrKind::SameIdentity)));
        }
    }
    // 14 the five forbidden configuration changes
    let mut bads = vec![Cfg { probe_period: cfg.probe_period + 1, ..cfg.clone() }, Cfg { probe_rtt: cfg.probe_rtt + 1, ..cfg.clone() }];
    if cfg.announce.is_none() {
        bads.push(Cfg { announce: Some((500, 1)), ..cfg.clone() });
    }
    if cfg.announce_down.is_none() {
        bads.push(Cfg { announce_down: Some((500, 1)), ..cfg.clone() });
    }
    if cfg.gossip.is_none() {
        bads.push(Cfg { gossip: Some((500, 1)), ..cfg.clone() });
    }
    // compound: a forbidden change together with legal changes of other
    // fields (nothing of a rejected configuration may be taken over)
    let simple = bads.clone();
    for b in &simple {
        bads.push(Cfg { max_packet: cfg.max_packet + 7, max_tx: cfg.max_tx + 1, notify_down: !cfg.notify_down, fanout: cfg.fanout + 1, ..b.clone() });
        if cfg.announce.is_some() && b.announce == cfg.announce {
            bads.push(Cfg { announce: None, ..b.clone() });
            bads.push(Cfg { announce: Some((777, 2)), ..b.clone() });
        }
        if cfg.gossip.is_some() && b.gossip == cfg.gossip {
            bads.push(Cfg { gossip: None, ..b.clone() });
        }
    }
    for bc in bads {
        v.push((14, Ev::SetConfig(Box::new(bc)), Res::Err(ErrKind::InvalidConfig)));
    }
    // 15 / 16 add_broadcast
    v.push((15, Ev::AddBroadcast(vec![]), Res::Err(ErrKind::MalformedPacket)));
    v.push((16, Ev::AddBroadcast(vec![1; cfg.max_packet + 1]), Res::Err(ErrKind::DataTooBig)));
    if cfg.max_packet > usize::from(u16::MAX) {
        // fits the packet but not the 16-bit length prefix of its frame; its
        // key (0, version 200) would invalidate every item the alphabet adds
        let mut big = vec![0u8, 200];
        big.resize(usize::from(u16::MAX) + 1, 0xAB);
        v.push((16, Ev::AddBroadcast(big), Res::Err(ErrKind::DataTooBig)));
    }
    v
}

/// All RNG-resolved runs of one event on `f`: (script, outcome, successor).
fn all_runs(f: &F, ev: &Ev, words: &[u32]) -> Vec<(Vec<u32>, StepOut, F)> {
    let mut res = Vec::new();
    let mut stack: Vec<Vec<u32>> = vec![vec![]];
    while let Some(script) = stack.pop() {
        let mut c = f.clone();
        let out = run_event(&mut c, ev, &script);
        if out.extra_draws > 0 && out.panic.is_none() {
            for &w in words.iter().rev() {
                let mut s = script.clone();
                s.push(w);
                stack.push(s);
            }
            continue;
        }
        res.push((script, out, c));
    }
    res
}

fn same_outcome(a: &StepOut, b: &StepOut) -> bool {
    a.effects == b.effects && a.res == b.res && a.draws == b.draws && a.panic == b.panic
}

fn masked(mut s: foca::VerifSnapshot<Id>) -> foca::VerifSnapshot<Id> {
    // scratch: cleared before every use (see core::obs_snapshot)
    s.updates_buf_len = 0;
    s.updates_buf.clear();
    s.choice_buf.clear();
    s
}

impl C17Spec {
    /// compare every continuation of length <= depth from `a` (without) and
    /// `b` (with the rejected input in front)
    fn continuations_agree(&self, a: &F, b: &F, evs: &[Ev], depth: usize, trail: &mut Vec<String>) -> Result<(), String> {
        if depth == 0 {
            return Ok(());
        }
        let codec = self.base.codec;
        for ev in evs {
            let ra = all_runs(a, ev, &self.base.words);
            for (script, oa, fa) in ra {
                let mut fb = b.clone();
                let ob = run_event(&mut fb, ev, &script);
                C17_CONT.fetch_add(1, Relaxed);
                if !same_outcome(&oa, &ob) {
                    trail.push(format!("{} rng={:?}", show_ev(&codec, ev), script));
                    return Err(format!(
                        "continuation [{}] differs: without the rejected input -> {:?} {:?}; with it -> {:?} {:?}",
                        trail.join(" ; "),
                        oa.res,
                        oa.effects.iter().map(|e| show_effect(&codec, e)).collect::<Vec<_>>(),
                        ob.res,
                        ob.effects.iter().map(|e| show_effect(&codec, e)).collect::<Vec<_>>()
                    ));
                }
                if depth > 1 && oa.panic.is_none() {
                    trail.push(format!("{} rng={:?}", show_ev(&codec, ev), script));
                    self.continuations_agree(&fa, &fb, evs, depth - 1, trail)?;
                    trail.pop();
                }
            }
        }
        Ok(())
    }
}

impl Spec for C17Spec {
    type Mon = CoreMon;
    fn name(&self) -> String {
        self.base.label.clone()
    }
    fn codec(&self) -> FixCodec {
        self.base.codec
    }
    fn fresh(&self) -> (F, CoreMon) {
        self.base.fresh()
    }
    fn seeds(&self) -> Vec<Vec<HistStep>> {
        self.base.seed_hists.clone()
    }
    fn rng_menu(&self) -> &[u32] {
        &self.base.words
    }
    fn menu(&self, node: &Node<CoreMon>, view: &View) -> Vec<Ev> {
        self.base.menu(node, view)
    }
    fn step(&self, cx: &StepCtx<'_, CoreMon>, mon: &mut CoreMon) -> Result<(), Viol> {
        self.base.step(cx, mon)
    }
    fn state(&self, node: &Node<CoreMon>, view: &View) -> Result<(), Viol> {
        let codec = self.base.codec;
        let snap0 = masked(node.f.verif_snapshot());
        // determinism: rebuilding the state from its history reproduces it
        {
            let steps = hist_vec(&node.hist);
            let (mut f, _) = self.base.fresh();
            for st in &steps {
                let _ = run_event(&mut f, &st.ev, &st.script);
            }
            C17_REBUILT.fetch_add(1, Relaxed);
            if f.verif_snapshot() != node.f.verif_snapshot() || f.verif_handler() != node.f.verif_handler() {
                return Err(viol("c17:nondeterministic", "replaying the recorded history of this state produced a different state".into()));
            }
        }
        let mut evs = self.base.menu(node, view);
        let mut seen_t: Vec<TimerKey> = Vec::new();
        for (_, t) in &node.timers {
            if !seen_t.contains(t) {
                seen_t.push(*t);
                evs.push(Ev::Timer(*t));
            }
        }
        let rejected = rejected_inputs(&self.base, &node.f, view);
        for (class, rev, want) in &rejected {
            C17_CLASS_TALLY[*class].fetch_add(1, Relaxed);
            let mut c = node.f.clone();
            let out = run_event(&mut c, rev, &[]);
            let name = CLASSES[*class];
            if let Some(p) = &out.panic {
                return Err(viol("panic", format!("rejected input ({name}) {} panicked: {p}", show_ev(&codec, rev))));
            }
            if out.res != *want {
                return Err(viol(&format!("c17:wrong-result:{name}"), format!("{} returned {:?}, documented result is {:?}", show_ev(&codec, rev), out.res, want)));
            }
            if !out.effects.is_empty() || out.draws != 0 {
                return Err(viol(
                    &format!("c17:rejected-input-had-effects:{name}"),
                    format!("{} was rejected ({:?}) but produced effects {:?} / {} RNG draws", show_ev(&codec, rev), out.res, out.effects.iter().map(|e| show_effect(&codec, e)).collect::<Vec<_>>(), out.draws),
                ));
            }
            let mut trail = vec![format!("<{name}> {}", show_ev(&codec, rev))];
            if let Err(e) = self.continuations_agree(&node.f, &c, &evs, self.cont_depth, &mut trail) {
                return Err(viol(&format!("c17:trace-left:{name}"), e));
            }
            if masked(c.verif_snapshot()) != snap0 || c.verif_handler() != node.f.verif_handler() || View::of(&c) != *view {
                return Err(viol(&format!("c17:state-changed:{name}"), format!("{} was rejected but changed the instance's state", show_ev(&codec, rev))));
            }
            if self.pairs {
                // a second rejected input right after the first
                for (class2, rev2, want2) in rejected.iter().step_by(7) {
                    let mut c2 = c.clone();
                    let out2 = run_event(&mut c2, rev2, &[]);
                    if out2.res != *want2 || !out2.effects.is_empty() {
                        return Err(viol(&format!("c17:pair:{}", CLASSES[*class2]), format!("after {} the rejected input {} behaved differently: {:?}", show_ev(&codec, rev), show_ev(&codec, rev2), out2.res)));
                    }
                    let mut trail = vec![format!("<{name}> {}", show_ev(&codec, rev)), format!("<{}> {}", CLASSES[*class2], show_ev(&codec, rev2))];
                    if let Err(e) = self.continuations_agree(&node.f, &c2, &evs, 1, &mut trail) {
                        return Err(viol(&format!("c17:trace-left:pair:{name}"), e));
                    }
                }
            }
        }
        Ok(())
    }
}

pub fn c17_specs(tier: &str) -> Vec<(C17Spec, Limits)> {
    let th = tier == "thorough";
    let words = crate::rng::menu(4, 3);
    let mut out = Vec::new();
    // third variant: one periodic task on, the others off (a rejected
    // configuration may combine switching one off with enabling another)
    // fourth variant: packets larger than the 16-bit length prefix of a
    // custom-broadcast frame
    for (pol, packet, periodic) in [(Renew::Next, 60usize, false), (Renew::None, 1400, false), (Renew::Next, 200, true), (Renew::None, 70_000, false)] {
        let me = id(A, 1).with(pol);
        let cfg = Cfg { max_packet: packet, notify_down: true, announce: periodic.then_some((500, 1)), ..Cfg::default() };
        let mut base = CoreSpec::new(&format!("c17-{pol:?}-pkt{packet}"), me, cfg);
        base.words = words.clone();
        base.alpha = Alpha {
            srcs: vec![(id(B, 0), 0, true), (id(C, 0), 1, false)],
            kinds: vec![Kind::Gossip, Kind::Ping, Kind::Announce, Kind::TurnUndead],
            payload_kinds: vec![Kind::Gossip],
            payloads: vec![vec![], vec![mm(id(C, 0), 0, State::Suspect)], vec![mm(id(B, 0), 0, State::Down)], vec![mm(id(D, 0), 0, State::Alive), mm(id(C, 0), 2, State::Alive)]],
            self_rel: vec![(0, State::Suspect), (0, State::Down)],
            items: vec![vec![1, 1, 5]],
            applies: vec![(vec![al(id(C, 0))], true)],
            api: vec![Ev::Gossip, Ev::Leave, Ev::Reuse, Ev::AddBroadcast(vec![0, 1, 9])],
            change_gens: vec![1],
            ..Alpha::default()
        };
        let mut sb = SeedBuilder::new(&base);
        sb.ev(Ev::Apply(vec![al(id(B, 0)), al(id(C, 0))], true));
        sb.fire(|t| matches!(t, TimerKey::ProbeRandomMember(_)));
        base.seed_hists.push(sb.done());
        let spec = C17Spec { base, cont_depth: if th { 2 } else { 1 }, pairs: th };
        let lim = if th { Limits { max_depth: 4, seed_depth: 3, max_states: 400_000, max_wall_s: 500.0 } } else { Limits { max_depth: 3, seed_depth: 2, max_states: 60_000, max_wall_s: 120.0 } };
        out.push((spec, lim));
    }
    out
}

pub fn c17(tier: &str) -> Report {
    let mut rep = Report::new("C17", tier, "model_checking");
    let _ = calibrated(&mut rep, 4, 3);
    let mut per_variant = Vec::new();
    for (spec, lim) in c17_specs(tier) {
        let (stats, found) = explore(&spec, &lim);
        rep.states += stats.states;
        rep.transitions += stats.transitions;
        per_variant.push(json!({"variant": spec.base.label, "base_states": stats.states, "base_transitions": stats.transitions, "depth_completed": stats.depth_completed, "cap_hit": stats.capped, "continuation_depth": spec.cont_depth, "pairs": spec.pairs, "wall_s": stats.wall_s}));
        for s in stats.samples.iter().take(2) {
            rep.sample(json!({"variant": spec.base.label, "base_history": s}));
        }
        for f in found.iter().take(20) {
            let shown: Vec<String> = f.history.iter().map(|s| format!("{}  rng={:?}", show_ev(&spec.base.codec, &s.ev), s.script)).collect();
            rep.violate(&f.viol.signature, format!("{} [variant {}; in the state reached by: {}]", f.viol.what, spec.base.label, shown.join(" ; ")), json!({"engine": "e1", "property": "C17", "tier": tier, "variant": spec.base.label, "history": f.history, "shown": shown}));
        }
    }
    let tally: Vec<u64> = C17_CLASS_TALLY.iter().map(|a| a.load(Relaxed)).collect();
    let cont = C17_CONT.load(Relaxed);
    rep.transitions += cont;
    rep.evaluations = tally.iter().sum();
    rep.distinct_nontrivial = rep.states;
    rep.set("variants", json!(per_variant));
    rep.set("rejected_inputs_tried_per_class", json!(CLASSES.iter().zip(tally.iter()).map(|(c, n)| (c.to_string(), *n)).collect::<std::collections::BTreeMap<_, _>>()));
    rep.set("continuation_transitions_compared", json!(cont));
    rep.set("states_rebuilt_from_history_for_determinism", json!(C17_REBUILT.load(Relaxed)));
    rep.rule = "every reachable base state (BFS, exact dedup) x every rejected input of 17 classes x every continuation event of the base alphabet under every RNG answer; evaluations = rejected inputs tried".into();
    rep.exhaustive = true;
    if rep.violations.is_empty() && tally.iter().any(|x| *x == 0) {
        rep.machinery(format!("vacuous: a rejection class was never tried: {tally:?}"));
    }
    rep.assume("scratch buffers (updates_buf, choice_buf, send_buf contents) are excluded from the state comparison; the continuation check is what would expose them mattering");
    rep
}

