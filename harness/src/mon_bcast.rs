//! C15 (dissemination accounting of membership updates) and C16 (custom
//! broadcasts): reference backlogs kept by the harness from *observed*
//! acceptance, compared with what every outgoing datagram carries.
use crate::core::*;
use crate::doubles::*;
use crate::e1::{viol, StepCtx, Viol};
use crate::grammar;
use crate::refmodel::*;
use foca::{Invalidates, Member, Message, OwnedNotification as N, State};
use std::collections::BTreeMap;
use std::sync::atomic::{AtomicU64, Ordering::Relaxed};

// ---------------------------------------------------------------- C15 ----

#[derive(Clone, Debug, PartialEq, Eq, Hash, Default)]
pub struct C15State {
    /// address -> (serialized update, transmissions remaining)
    pub live: BTreeMap<u8, (Vec<u8>, u16)>,
}

/// [datagrams checked, updates carried, omitted-entry cases, entries expired, superseded]
pub static C15_TALLY: [AtomicU64; 5] = [AtomicU64::new(0), AtomicU64::new(0), AtomicU64::new(0), AtomicU64::new(0), AtomicU64::new(0)];

pub fn c15_step(cx: &StepCtx<'_, impl Sized>, info: &InputInfo, st: &mut C15State, codec: &FixCodec, cfg: &Cfg, conn_pre: Conn) -> Result<(), Viol> {
    let pre = cx.pre_view;
    let post = cx.post_view;
    let mt = cfg.max_tx as u16;
    // ---- acceptances (observed: the record at the address changed) ---------
    let broadcasting = match cx.ev {
        Ev::Apply(_, b) => *b,
        Ev::Data(_) => info.admitted.is_some(),
        Ev::Timer(_) => true,
        _ => false,
    };
    if broadcasting {
        for r in &post.members {
            let before = pre.record_at(r.id().addr);
            if before != Some(r) {
                let bytes = codec.member_bytes(r);
                if st.live.insert(r.id().addr, (bytes, mt)).is_some() {
                    C15_TALLY[4].fetch_add(1, Relaxed);
                }
            }
        }
    }
    // explicit enqueues: leave_cluster -> Down(self); identity change -> Down(previous)
    if matches!(cx.ev, Ev::Leave) && cx.out.res.is_ok() {
        st.live.insert(pre.id.addr, (codec.member_bytes(&Member::new(pre.id, 0, State::Down)), mt));
    }
    if pre.id != post.id && conn_pre != Conn::Defunct {
        st.live.insert(pre.id.addr, (codec.member_bytes(&Member::new(pre.id, 0, State::Down)), mt));
    }
    // ---- every outgoing datagram ------------------------------------------
    for (to, d) in cx.out.sends() {
        let Ok(p) = grammar::parse(codec, d) else {
            continue; // C07's business
        };
        let consumes = grammar::piggybacks(&p.header.message) && !matches!(p.header.message, Message::Feed);
        if !consumes {
            continue;
        }
        C15_TALLY[0].fetch_add(1, Relaxed);
        let mut cur = p.header_len + 2;
        let mut carried: Vec<(u8, usize, u16)> = Vec::new(); // (addr, len, remaining before)
        if let Some(us) = &p.updates {
            for (k, u) in us.iter().enumerate() {
                let bytes = &d[cur..cur + p.update_lens[k]];
                cur += p.update_lens[k];
                let addr = u.id().addr;
                match st.live.get(&addr) {
                    Some((b, rem)) if b.as_slice() == bytes => {
                        if carried.iter().any(|(a, _, _)| *a == addr) {
                            return Err(viol("c15:update-twice-in-datagram", format!("update {} carried twice in one datagram to {}", show_member(u), to.show())));
                        }
                        carried.push((addr, bytes.len(), *rem));
                    }
                    Some((b, _)) => {
                        let cur_m = codec.parse_member(&b[..]).ok();
                        return Err(viol(
                            "c15:stale-update-gossiped",
                            format!("datagram to {} carries {} but the most recently accepted update for that address is {:?}", to.show(), show_member(u), cur_m.as_ref().map(show_member)),
                        ));
                    }
                    None => {
                        return Err(viol(
                            "c15:update-beyond-max-transmissions",
                            format!("datagram to {} carries {} which is not (or no longer) pending: transmitted more than max_transmissions={} times or never accepted", to.show(), show_member(u), cfg.max_tx),
                        ));
                    }
                }
                C15_TALLY[1].fetch_add(1, Relaxed);
            }
        }
        // space left for updates when the member section was closed
        let used = if p.updates.is_some() { cur } else { p.header_len };
        let space = cfg.max_packet.saturating_sub(used);
        let room_for_count = cfg.max_packet.saturating_sub(p.header_len) > 2;
        for (addr, (b, rem)) in &st.live {
            if carried.iter().any(|(a, _, _)| a == addr) {
                continue;
            }
            C15_TALLY[2].fetch_add(1, Relaxed);
            if room_for_count && b.len() <= space {
                return Err(viol(
                    "c15:pending-update-omitted",
                    format!("datagram to {} omits pending update {:?} ({} bytes) although {} bytes were left", to.show(), codec.parse_member(&b[..]).ok().as_ref().map(show_member), b.len(), space),
                ));
            }
            for (ca, clen, crem) in &carried {
                if rem > crem && b.len() <= *clen {
                    return Err(viol(
                        "c15:precedence",
                        format!("datagram to {} carries the update for address {} ({} tx left, {} bytes) but omits the one for address {} with more transmissions left ({}) that is not larger ({} bytes)", to.show(), ca, crem, clen, addr, rem, b.len()),
                    ));
                }
            }
        }
        for (addr, _, _) in carried {
            let e = st.live.get_mut(&addr).unwrap();
            e.1 -= 1;
            if e.1 == 0 {
                st.live.remove(&addr);
                C15_TALLY[3].fetch_add(1, Relaxed);
            }
        }
    }
    // ---- the backlog is exactly the live entries ----------------------------
    if post.updates_backlog != st.live.len() {
        return Err(viol(
            "c15:backlog-size",
            format!("updates_backlog()={} but {} accepted updates are still owed transmissions: {:?}", post.updates_backlog, st.live.len(), st.live.iter().map(|(a, (b, r))| format!("addr{}:{:?}x{}", a, codec.parse_member(&b[..]).ok().as_ref().map(show_member), r)).collect::<Vec<_>>()),
        ));
    }
    // hook cross-check: remaining transmissions per entry
    let snap = cx.post.verif_snapshot();
    let mut hook: Vec<(Vec<u8>, u16)> = snap.updates.iter().map(|(r, b)| (b.clone(), *r as u16)).collect();
    hook.sort();
    let mut mine: Vec<(Vec<u8>, u16)> = st.live.values().cloned().collect();
    mine.sort();
    if hook != mine {
        return Err(viol("c15:remaining-transmissions", format!("remaining transmissions differ: backlog {:?} vs inferred {:?}", hook, mine)));
    }
    let _ = N::<Id>::Active;
    Ok(())
}

// ---------------------------------------------------------------- C16 ----

#[derive(Clone, Debug, PartialEq, Eq, Hash, Default)]
pub struct C16State {
    /// live accepted items in acceptance order: (key, bytes, remaining)
    pub live: Vec<(BKey, Vec<u8>, u16)>,
    /// items that were invalidated (must never be transmitted again, unless
    /// accepted anew)
    pub dead: Vec<Vec<u8>>,
}

/// [datagrams with items, items carried, receiver checks, broadcast() calls, invalidations, masked-recipient datagrams]
pub static C16_TALLY: [AtomicU64; 6] = [AtomicU64::new(0), AtomicU64::new(0), AtomicU64::new(0), AtomicU64::new(0), AtomicU64::new(0), AtomicU64::new(0)];

fn c16_accept(st: &mut C16State, key: BKey, data: &[u8], mt: u16) {
    let before = st.live.len();
    let mut killed = Vec::new();
    st.live.retain(|(k, b, _)| {
        if key.invalidates(k) {
            killed.push(b.clone());
            false
        } else {
            true
        }
    });
    C16_TALLY[4].fetch_add((before - st.live.len()) as u64, Relaxed);
    for b in killed {
        if b != data && !st.dead.contains(&b) {
            st.dead.push(b);
        }
    }
    st.dead.retain(|b| b != data);
    st.live.push((key, data.to_vec(), mt));
    if st.dead.len() > 6 {
        st.dead.remove(0);
    }
}

pub fn c16_step(cx: &StepCtx<'_, impl Sized>, info: &InputInfo, st: &mut C16State, codec: &FixCodec, cfg: &Cfg) -> Result<(), Viol> {
    let pre = cx.pre_view;
    let post = cx.post_view;
    let mt = cfg.max_tx as u16;
    let handler_pre = cx.pre.f.verif_handler();
    // ---- acceptances, predicted by the table handler's own rule -------------
    let mut h = handler_pre.clone();
    match cx.ev {
        Ev::AddBroadcast(data) => {
            let legal = !data.is_empty() && data.len() <= cfg.max_packet;
            if legal {
                use foca::BroadcastHandler;
                match h.receive_item(data, None) {
                    Ok(Some(k)) => {
                        if cx.out.res != Res::OkBool(true) {
                            return Err(viol("c16:add-broadcast-result", format!("handler accepted {:?} but add_broadcast returned {:?}", data, cx.out.res)));
                        }
                        c16_accept(st, k, data, mt);
                    }
                    Ok(None) => {
                        if cx.out.res != Res::OkBool(false) {
                            return Err(viol("c16:add-broadcast-result", format!("handler declined {:?} but add_broadcast returned {:?}", data, cx.out.res)));
                        }
                    }
                    Err(_) => {
                        if cx.out.res != Res::Err(ErrKind::CustomBroadcast) {
                            return Err(viol("c16:add-broadcast-result", format!("handler failed on {:?} but add_broadcast returned {:?}", data, cx.out.res)));
                        }
                    }
                }
            }
        }
        Ev::Data(_) => {
            if let Some(p) = &info.admitted {
                if info.sender_active {
                    use foca::BroadcastHandler;
                    for it in &p.items {
                        match h.receive_item(it, Some(&p.header.src)) {
                            Ok(Some(k)) => c16_accept(st, k, it, mt),
                            Ok(None) => {}
                            Err(_) => break,
                        }
                    }
                }
            }
        }
        _ => {}
    }
    if h.seen != cx.post.verif_handler().seen {
        return Err(viol("c16:handler-saw-different-items", format!("handler state {:?} differs from the prediction {:?} (items not delivered exactly once)", cx.post.verif_handler().seen, h.seen)));
    }
    // ---- outgoing datagrams ---------------------------------------------------
    let is_broadcast_call = matches!(cx.ev, Ev::Broadcast);
    if is_broadcast_call {
        C16_TALLY[3].fetch_add(1, Relaxed);
    }
    let backlog_at_call = st.live.len();
    let mut recipients: Vec<Id> = Vec::new();
    for (to, d) in cx.out.sends() {
        let Ok(p) = grammar::parse(codec, d) else { continue };
        if is_broadcast_call {
            if !matches!(p.header.message, Message::Broadcast) {
                return Err(viol("c16:broadcast-sent-other-kind", format!("broadcast() sent {}", show_dgram(codec, d))));
            }
            if p.updates.is_some() {
                return Err(viol("c16:broadcast-with-members", "Broadcast datagram carries a member section".into()));
            }
            if recipients.contains(to) {
                return Err(viol("c16:broadcast-duplicate-recipient", format!("broadcast() sent twice to {}", to.show())));
            }
            if !pre.is_active(to) || !handler_pre.should_add(to) {
                return Err(viol("c16:broadcast-ineligible-recipient", format!("broadcast() sent to {} which is not an eligible active member", to.show())));
            }
            if st.live.is_empty() {
                return Err(viol("c16:broadcast-after-drain", format!("broadcast() kept sending to {} after the backlog was drained", to.show())));
            }
            recipients.push(*to);
        }
        if !p.items.is_empty() {
            C16_TALLY[0].fetch_add(1, Relaxed);
            if !grammar::may_carry_items(&p.header.message) {
                return Err(viol("c16:items-on-forbidden-kind", format!("custom items on {}", show_dgram(codec, d))));
            }
            if !handler_pre.should_add(to) {
                C16_TALLY[5].fetch_add(1, Relaxed);
                return Err(viol("c16:items-to-masked-recipient", format!("custom items sent to {} for which should_add_broadcast_data is false", to.show())));
            }
        }
        let mut carried: Vec<usize> = Vec::new();
        for it in &p.items {
            C16_TALLY[1].fetch_add(1, Relaxed);
            let pos = st.live.iter().enumerate().position(|(i, (_, b, _))| b == it && !carried.contains(&i));
            match pos {
                Some(i) => carried.push(i),
                None => {
                    let sig = if st.dead.contains(it) { "c16:invalidated-item-transmitted" } else { "c16:item-beyond-max-transmissions-or-corrupt" };
                    return Err(viol(sig, format!("datagram to {} carries item {:?} which is not a live accepted item (live: {:?})", to.show(), it, st.live.iter().map(|(_, b, r)| (b.clone(), *r)).collect::<Vec<_>>())));
                }
            }
        }
        // nothing that fits is omitted (only where items may be attached at all)
        if grammar::may_carry_items(&p.header.message) && handler_pre.should_add(to) {
            let space = cfg.max_packet.saturating_sub(d.len());
            for (i, (_, b, _)) in st.live.iter().enumerate() {
                if !carried.contains(&i) && b.len() + 2 <= space {
                    return Err(viol("c16:pending-item-omitted", format!("datagram to {} omits pending item {:?} although {} bytes were left", to.show(), b, space)));
                }
            }
        }
        // receiver side: a second real instance sees exactly the items, once
        // each, in order, with the sender's identity
        if !p.items.is_empty() {
            C16_TALLY[2].fetch_add(1, Relaxed);
            let mut hh = TableHandler::new(handler_pre.mode);
            hh.accept_all = true;
            hh.record_calls = true;
            let mut rx = new_foca(*to, cfg, *codec, hh);
            let o = run_event(&mut rx, &Ev::Data(d.clone()), &[]);
            // (a relayed request that names its own recipient as the third
            // party comes from a nonsensical input of the alphabet, a sender
            // asking to be probed through itself: its rejection is correct)
            if !o.res.is_ok() && o.res != Res::Err(ErrKind::IndirectForOurselves) {
                return Err(viol("c16:receiver-rejected", format!("a fresh peer {} rejected {} with {:?}", to.show(), show_dgram(codec, d), o.res)));
            }
            let calls = &rx.verif_handler().calls;
            let want: Vec<(Vec<u8>, Option<Id>)> = p.items.iter().map(|i| (i.clone(), Some(p.header.src))).collect();
            if *calls != want {
                return Err(viol("c16:receiver-saw-different-items", format!("receiver handler saw {:?}, datagram carried {:?}", calls, want)));
            }
        }
        let mut idx = carried.clone();
        idx.sort_unstable_by(|a, b| b.cmp(a));
        for i in &carried {
            st.live[*i].2 -= 1;
        }
        for i in idx {
            if st.live[i].2 == 0 {
                st.live.remove(i);
            }
        }
    }
    if is_broadcast_call {
        if backlog_at_call == 0 && cx.out.sends().next().is_some() {
            return Err(viol("c16:broadcast-with-empty-backlog", "broadcast() sent datagrams with an empty backlog".into()));
        }
        if recipients.len() > cfg.fanout {
            return Err(viol("c16:broadcast-too-many", format!("broadcast() sent {} datagrams with num_indirect_probes={}", recipients.len(), cfg.fanout)));
        }
    }
    if post.custom_backlog != st.live.len() {
        return Err(viol("c16:backlog-size", format!("custom_broadcast_backlog()={} but {} accepted items are still owed transmissions: {:?}", post.custom_backlog, st.live.len(), st.live)));
    }
    Ok(())
}
