//! C01: membership knowledge is a join-semilattice. Bounded-exhaustive: ALL
//! update sequences up to a length bound over a small alphabet (incl.
//! same-address conflicting identities and the u16 incarnation boundaries),
//! each prefix compared with an order-independent reference join; plus all
//! ordered pairs of reachable membership states for the state-exchange
//! clause. Public API only (apply_many, iter_membership_state).
use crate::core::*;
use crate::doubles::*;
use crate::report::Report;
use foca::{Member, State};
use rayon::prelude::*;
use serde_json::json;
use std::collections::{BTreeMap, HashSet};
use std::sync::Mutex;

/// Reference value of one address: (generation, is_down, incarnation unless
/// down, is_suspect) compared lexicographically == SWIM precedence with the
/// address-conflict winner on top.
type RefRec = (u8, bool, u16, bool);

fn ref_of(m: &Member<Id>) -> RefRec {
    let down = m.state() == State::Down;
    (m.id().gen, down, if down { 0 } else { m.incarnation() }, m.state() == State::Suspect)
}

type RefState = BTreeMap<u8, RefRec>;

fn ref_join(s: &mut RefState, u: &Member<Id>) {
    let r = ref_of(u);
    let e = s.entry(u.id().addr).or_insert(r);
    if r > *e {
        *e = r;
    }
}

fn view_ref(f: &F) -> RefState {
    let mut s = RefState::new();
    for m in f.iter_membership_state() {
        // two records for one address would be lost here; C09 owns that
        s.insert(m.id().addr, ref_of(m));
    }
    s
}

fn alphabet(incs: &[u16], ids: &[Id]) -> Vec<Member<Id>> {
    let mut v = Vec::new();
    for i in ids {
        for inc in incs {
            for st in [State::Alive, State::Suspect, State::Down] {
                v.push(Member::new(*i, *inc, st));
            }
        }
    }
    v
}

struct Sweep<'a> {
    alpha: &'a [Member<Id>],
    depth: usize,
    states: &'a Mutex<HashSet<u128>>,
}

#[derive(Default)]
struct Tally {
    nodes: u64,
    idempotence: u64,
    batch: u64,
}

fn fresh(me: Id) -> F {
    new_foca(me, &Cfg::default(), FixCodec::default(), TableHandler::new(InvMode::NewerVersion))
}

impl Sweep<'_> {
    fn dfs(&self, f: &F, refst: &RefState, seq: &mut Vec<Member<Id>>, t: &mut Tally, local: &mut HashSet<u128>) -> Result<(), String> {
        if seq.len() == self.depth {
            // the whole sequence in ONE call, without broadcasting, gives the same view
            let mut b = fresh(*f.identity());
            let out = run_event(&mut b, &Ev::Apply(seq.clone(), false), &[]);
            t.batch += 1;
            if out.panic.is_some() || !out.res.is_ok() || view_ref(&b) != *refst {
                return Err(format!("applying {:?} in one call (do_broadcast=false) gives {} but one by one gives {}", seq.iter().map(show_member).collect::<Vec<_>>(), View::of(&b).show(), View::of(f).show()));
            }
            return Ok(());
        }
        for u in self.alpha {
            let mut c = f.clone();
            let out = run_event(&mut c, &Ev::Apply(vec![u.clone()], true), &[]);
            t.nodes += 1;
            seq.push(u.clone());
            let show = |seq: &Vec<Member<Id>>| seq.iter().map(show_member).collect::<Vec<_>>().join(",");
            if let Some(p) = out.panic {
                return Err(format!("panic {p} applying [{}]", show(seq)));
            }
            if !out.res.is_ok() {
                return Err(format!("apply_many returned {:?} for [{}]", out.res, show(seq)));
            }
            let mut r2 = refst.clone();
            ref_join(&mut r2, u);
            let got = view_ref(&c);
            if got != r2 {
                // monotonicity or order-insensitivity broken: say which
                let before = refst.get(&u.id().addr);
                let after = got.get(&u.id().addr);
                let sig = if after.is_some_and(|a| before.is_some_and(|b| a < b)) { "moved backwards" } else { "differs from the join of the updates delivered" };
                return Err(format!("after [{}] the record for address {} {sig}: view {} ; reference join {:?}", show(seq), u.id().addr, View::of(&c).show(), r2));
            }
            if c.iter_membership_state().len() != r2.len() {
                return Err(format!("after [{}] the view holds {} records for {} addresses", show(seq), c.iter_membership_state().len(), r2.len()));
            }
            local.insert(hash128(&r2));
            // idempotence: re-applying the instance's own full state changes nothing
            {
                let own: Vec<Member<Id>> = c.iter_membership_state().cloned().collect();
                let mut d = c.clone();
                let backlog = d.updates_backlog();
                let o = run_event(&mut d, &Ev::Apply(own, true), &[]);
                t.idempotence += 1;
                if !o.effects.is_empty() || !o.res.is_ok() || d.updates_backlog() != backlog || View::of(&d).members != View::of(&c).members {
                    return Err(format!("re-applying its own state after [{}] changed something: effects {:?}, backlog {} -> {}", show(seq), o.effects, backlog, d.updates_backlog()));
                }
            }
            self.dfs(&c, &r2, seq, t, local)?;
            seq.pop();
        }
        if seq.len() <= 1 {
            self.states.lock().unwrap().extend(local.drain());
        }
        Ok(())
    }
}

fn run_sweep(alpha: &[Member<Id>], depth: usize, label: &str, rep: &mut Report) -> serde_json::Value {
    let states = Mutex::new(HashSet::new());
    let me = id(9, 0);
    let sw = Sweep { alpha, depth, states: &states };
    // parallel over the first two letters
    let firsts: Vec<(usize, usize)> = (0..alpha.len()).flat_map(|a| (0..alpha.len()).map(move |b| (a, b))).collect();
    let results: Vec<Result<Tally, String>> = firsts
        .par_iter()
        .map(|(a, b)| {
            let mut t = Tally::default();
            let mut local = HashSet::new();
            let mut f = fresh(me);
            let mut r = RefState::new();
            let mut seq = Vec::new();
            // depth 1 nodes are visited once per (a, b): only b == 0 checks them
            for (k, idx) in [*a, *b].iter().enumerate().take(depth.min(2)) {
                let u = &alpha[*idx];
                let out = run_event(&mut f, &Ev::Apply(vec![u.clone()], true), &[]);
                seq.push(u.clone());
                ref_join(&mut r, u);
                if out.panic.is_some() || !out.res.is_ok() || view_ref(&f) != r {
                    return Err(format!("after [{}] view {} differs from the reference join {:?}", seq.iter().map(show_member).collect::<Vec<_>>().join(","), View::of(&f).show(), r));
                }
                if k == 1 || *b == 0 {
                    t.nodes += 1;
                }
                local.insert(hash128(&r));
            }
            if depth > 2 {
                sw.dfs(&f, &r, &mut seq, &mut t, &mut local)?;
            }
            states.lock().unwrap().extend(local.drain());
            Ok(t)
        })
        .collect();
    let mut total = Tally::default();
    for r in results {
        match r {
            Ok(t) => {
                total.nodes += t.nodes;
                total.idempotence += t.idempotence;
                total.batch += t.batch;
            }
            Err(e) => {
                let sig = if e.contains("moved backwards") {
                    "c01:not-monotone"
                } else if e.contains("re-applying") {
                    "c01:not-idempotent"
                } else if e.contains("one call") {
                    "c01:batch-differs"
                } else {
                    "c01:order-sensitive"
                };
                rep.violate(sig, format!("{e} [{label}]"), json!({"engine": "e3-c01", "sweep": label}));
            }
        }
    }
    let n_states = states.lock().unwrap().len() as u64;
    rep.states += n_states;
    rep.transitions += total.nodes + total.idempotence + total.batch;
    rep.evaluations += total.nodes;
    json!({"sweep": label, "letters": alpha.len(), "max_length": depth, "sequence_prefixes_checked": total.nodes, "idempotence_checks": total.idempotence, "whole_sequence_in_one_call_checks": total.batch, "distinct_membership_states": n_states})
}

/// The view does not depend on HOW an update is delivered: from every state
/// reached by <= 2 letters, every letter is delivered (a) through apply_many,
/// (b) as the payload of a Gossip datagram from a third party, (c) as the
/// payload of a Gossip datagram from its own subject, whose header says
/// "alive at incarnation h" for h in {the update's, the update's + 1}. The
/// expected view is the reference join of everything said, header included.
fn routes(alpha: &[Member<Id>], rep: &mut Report) -> serde_json::Value {
    use foca::Message;
    let me = id(9, 0);
    let third = id(7, 0);
    let codec = FixCodec::default();
    let mut starts: Vec<(F, RefState, Vec<Member<Id>>)> = vec![(fresh(me), RefState::new(), vec![])];
    let mut frontier = starts.clone();
    for _ in 0..2 {
        let mut next = Vec::new();
        for (f, r, seq) in &frontier {
            for u in alpha {
                let mut c = f.clone();
                run_event(&mut c, &Ev::Apply(vec![u.clone()], true), &[]);
                let mut r2 = r.clone();
                ref_join(&mut r2, u);
                let mut s2 = seq.clone();
                s2.push(u.clone());
                next.push((c, r2, s2));
            }
        }
        starts.extend(next.iter().cloned());
        frontier = next;
    }
    let results: Vec<Result<u64, String>> = starts
        .par_iter()
        .map(|(f, r, seq)| {
            let mut n = 0u64;
            let show = |seq: &Vec<Member<Id>>| seq.iter().map(show_member).collect::<Vec<_>>().join(",");
            // (d) forgetting: the forget-timer of a Down record removes that
            // record and leaves every other record exactly where it was
            for m in f.iter_membership_state().filter(|m| m.state() == State::Down).cloned().collect::<Vec<_>>() {
                let mut c = f.clone();
                let out = run_event(&mut c, &Ev::Timer(TimerKey::RemoveDown(*m.id())), &[]);
                let mut want = r.clone();
                want.remove(&m.id().addr);
                n += 1;
                if out.panic.is_some() || !out.res.is_ok() || view_ref(&c) != want || c.iter_membership_state().count() != want.len() {
                    return Err(format!("after [{}], forgetting {} gives {} ({:?}); expected every other record untouched: {:?}", show(seq), show_member(&m), View::of(&c).show(), out.res, want));
                }
            }
            for u in alpha {
                // (b) third party
                {
                    let mut c = f.clone();
                    let d = dgram(&codec, third, 0, me, Message::Gossip, Some(std::slice::from_ref(u)), &[]);
                    let out = run_event(&mut c, &Ev::Data(d), &[0, 0, 0, 0]);
                    let mut want = r.clone();
                    ref_join(&mut want, &Member::new(third, 0, State::Alive));
                    ref_join(&mut want, u);
                    n += 1;
                    if out.panic.is_some() || !out.res.is_ok() || view_ref(&c) != want {
                        return Err(format!("after [{}], {} relayed by a third party gives {} ({:?}); the reference join says {:?}", show(seq), show_member(u), View::of(&c).show(), out.res, want));
                    }
                }
                // (c) the subject itself
                let known = r.get(&u.id().addr);
                let accepted = match known {
                    None => true,
                    Some((gen, down, _, _)) => *gen < u.id().gen || (*gen == u.id().gen && !*down),
                };
                if !accepted {
                    continue;
                }
                for h in [u.incarnation(), u.incarnation().saturating_add(1)] {
                    let mut c = f.clone();
                    let d = dgram(&codec, *u.id(), h, me, Message::Gossip, Some(std::slice::from_ref(u)), &[]);
                    let out = run_event(&mut c, &Ev::Data(d), &[0, 0, 0, 0]);
                    let mut want = r.clone();
                    ref_join(&mut want, &Member::new(*u.id(), h, State::Alive));
                    ref_join(&mut want, u);
                    n += 1;
                    if out.panic.is_some() || !out.res.is_ok() || view_ref(&c) != want {
                        return Err(format!("after [{}], {} said by its own subject (header incarnation {h}) gives {} ({:?}); the reference join says {:?}", show(seq), show_member(u), View::of(&c).show(), out.res, want));
                    }
                }
            }
            Ok(n)
        })
        .collect();
    let mut total = 0u64;
    for r in results {
        match r {
            Ok(n) => total += n,
            Err(e) => rep.violate("c01:route-sensitive", e, json!({"engine": "e3-c01", "clause": "delivery route"})),
        }
    }
    rep.transitions += total;
    rep.evaluations += total;
    json!({"start_states": starts.len(), "datagram_deliveries_checked": total})
}

/// States reachable on an instance with own identity `me` by sequences of
/// length <= 3 over `alpha` (as record lists).
fn reachable_states(me: Id, alpha: &[Member<Id>], depth: usize) -> Vec<Vec<Member<Id>>> {
    let mut seen: HashSet<u128> = HashSet::new();
    let mut out: Vec<Vec<Member<Id>>> = Vec::new();
    let mut frontier = vec![fresh(me)];
    out.push(vec![]);
    seen.insert(hash128(&Vec::<Member<Id>>::new()));
    for _ in 0..depth {
        let mut next = Vec::new();
        for f in &frontier {
            for u in alpha {
                let mut c = f.clone();
                let o = run_event(&mut c, &Ev::Apply(vec![u.clone()], true), &[]);
                if o.panic.is_some() {
                    continue;
                }
                let mut st: Vec<Member<Id>> = c.iter_membership_state().cloned().collect();
                st.sort_by_key(|m| (m.id().addr, m.id().gen));
                if seen.insert(hash128(&st)) {
                    out.push(st);
                    next.push(c);
                }
            }
        }
        frontier = next;
    }
    out
}

fn exchange(rep: &mut Report, thorough: bool) -> serde_json::Value {
    let a_id = id(8, 0);
    let b_id = id(9, 0);
    let third = [id(1, 0), id(1, 1), id(2, 0)];
    let mut alpha = alphabet(&[0, 1], &third);
    // records about the partner and about the own address
    for i in [a_id, b_id, id(8, 1), id(9, 1)] {
        for st in [State::Alive, State::Suspect, State::Down] {
            alpha.push(Member::new(i, 0, st));
        }
    }
    let depth = if thorough { 3 } else { 3 };
    let sa = reachable_states(a_id, &alpha, depth);
    let sb = reachable_states(b_id, &alpha, depth);
    let build = |me: Id, st: &Vec<Member<Id>>| -> F {
        let mut f = fresh(me);
        run_event(&mut f, &Ev::Apply(st.clone(), false), &[0, 0, 0, 0, 0, 0]);
        f
    };
    let full = |f: &F| -> Vec<Member<Id>> { f.iter_membership_state().cloned().collect() };
    let third_party = |f: &F| -> RefState {
        let mut s = view_ref(f);
        s.remove(&8);
        s.remove(&9);
        s
    };
    let pairs: u64 = (sa.len() * sb.len()) as u64;
    let bad = sa.par_iter().find_map_first(|x| {
        let a0 = build(a_id, x);
        for y in &sb {
            let b0 = build(b_id, y);
            // protocol 1: B applies A's state, then A applies B's merged state
            let mut b1 = b0.clone();
            let o1 = run_event(&mut b1, &Ev::Apply(full(&a0), true), &[0; 8]);
            let mut a1 = a0.clone();
            let o2 = run_event(&mut a1, &Ev::Apply(full(&b1), true), &[0; 8]);
            if o1.panic.is_some() || o2.panic.is_some() {
                return Some(format!("panic during state exchange of {} and {}", View::of(&a0).show(), View::of(&b0).show()));
            }
            if third_party(&a1) != third_party(&b1) {
                return Some(format!("after B applied A's state and A applied B's merged state they disagree on a third party: A {} ; B {} (started from A {} ; B {})", View::of(&a1).show(), View::of(&b1).show(), View::of(&a0).show(), View::of(&b0).show()));
            }
            // protocol 2: both apply each other's pre-state
            let mut a2 = a0.clone();
            let mut b2 = b0.clone();
            run_event(&mut a2, &Ev::Apply(full(&b0), true), &[0; 8]);
            run_event(&mut b2, &Ev::Apply(full(&a0), true), &[0; 8]);
            if third_party(&a2) != third_party(&b2) {
                return Some(format!("after applying each other's states they disagree on a third party: A {} ; B {} (started from A {} ; B {})", View::of(&a2).show(), View::of(&b2).show(), View::of(&a0).show(), View::of(&b0).show()));
            }
        }
        None
    });
    if let Some(e) = bad {
        rep.violate("c01:exchange-disagreement", e, json!({"engine": "e3-c01", "clause": "state exchange"}));
    }
    rep.transitions += pairs * 4;
    rep.evaluations += pairs * 2;
    json!({"states_instance_A": sa.len(), "states_instance_B": sb.len(), "ordered_pairs": pairs, "protocols_per_pair": 2})
}

pub fn c01(tier: &str) -> Report {
    let th = tier == "thorough";
    let mut rep = Report::new("C01", tier, "model_checking");
    let ids = [id(1, 0), id(1, 1), id(1, 2), id(2, 0)];
    let mut sweeps = Vec::new();
    let a_small = alphabet(&[0, 1, 2], &ids);
    let a_bound = alphabet(&[0, 1, u16::MAX - 1, u16::MAX], &ids);
    sweeps.push(run_sweep(&a_small, 4, "4 identities (3 generations of one address + another address) x incarnations {0,1,2}", &mut rep));
    sweeps.push(run_sweep(&a_bound, 4, "same identities x incarnations {0,1,65534,65535}", &mut rep));
    // power-of-two boundaries of the u16 range (sign bit, byte boundary): an
    // order computed on a narrower or shifted type shows up here
    let a_half = alphabet(&[0, 0x7FFF, 0x8000, 0xFFFF], &ids);
    sweeps.push(run_sweep(&a_half, 4, "same identities x incarnations {0,32767,32768,65535}", &mut rep));
    let a_byte = alphabet(&[0x00FF, 0x0100, 0x7F00, 0xFF00], &ids[1..]);
    sweeps.push(run_sweep(&a_byte, 4, "3 identities x incarnations {255,256,32512,65280}", &mut rep));
    if th {
        sweeps.push(run_sweep(&a_small, 5, "length 5, incarnations {0,1,2}", &mut rep));
        let one_addr = alphabet(&[0, 1, u16::MAX], &ids[..3]);
        sweeps.push(run_sweep(&one_addr, 6, "length 6, one address x 3 generations x incarnations {0,1,65535}", &mut rep));
    } else {
        let one_addr = alphabet(&[0, 1], &ids[..3]);
        sweeps.push(run_sweep(&one_addr, 5, "length 5, one address x 3 generations x incarnations {0,1}", &mut rep));
    }
    rep.set("sequence_sweeps", json!(sweeps));
    let rt = routes(&a_small, &mut rep);
    rep.set("delivery_routes", rt);
    let ex = exchange(&mut rep, th);
    rep.set("state_exchange", ex);
    rep.distinct_nontrivial = rep.states;
    rep.exhaustive = true;
    rep.rule = "ALL update sequences over the alphabet up to the stated length (which subsumes every permutation and duplication of every multiset); after every prefix the view must equal the reference join of the set of updates delivered; distinct = distinct membership states reached; plus all ordered pairs of reachable states x two exchange protocols".into();
    rep.sample(json!({"sequence": ["B.0:A1", "B.1:S0", "B.0:D0", "B.1:A0"], "expected_view": "B.1:S0 (newer generation wins whatever the states; Suspect beats Alive at equal incarnation)"}));
    rep.assume("win_addr_conflict is a strict total order per address (greater generation wins)");
    rep.assume("the incarnation remembered next to Down is ignored when comparing views");
    rep
}
